#!/usr/bin/env python3
"""seedintake.py <wave-letter> <in-root> <results.json> : file verified seeded defects under /verif/seeded/<id>/.
Only entries whose patch applies, whose tests pass and whose demo fails with / passes without the change are kept."""
import json, os, shutil, sys
wave, root, resf = sys.argv[1], sys.argv[2], sys.argv[3]
res = json.load(open(resf))
for key, r in sorted(res.items()):
    tag, k = key.split("/")
    if not tag.endswith("-" + wave):
        continue
    prop = tag.split("-")[0]
    sid = f"{prop}{wave}{k}"
    ok = r.get("apply") and r.get("tests_pass") and r.get("demo_fails_patched") and r.get("demo_passes_clean")
    if not ok:
        print("SKIP", key, {x: r.get(x) for x in ("apply", "tests_pass", "demo_fails_patched", "demo_passes_clean")})
        continue
    dst = f"/verif/seeded/{sid}"
    shutil.rmtree(dst, ignore_errors=True)
    shutil.copytree(os.path.join(root, tag, k), dst)
    c = r.get("checks", {}).get(prop, {})
    caught = c.get("exit") == 1
    meta = {"id": sid, "property": prop,
            "origin": f"independent sub-agent given only the property text and a scratch worktree (wave {wave}: told the one-line descriptions of all earlier changes and that they had been caught)",
            "base": "applies to /repo HEAD", "needs_to_manifest": "see notes.md",
            "confirmed": {"applies": True, "builds_and_unit_tests_pass": True, "demo_fails_with_patch": True, "demo_passes_without_patch": True,
                          "how": "tools/seedtest.py: scratch worktree of /repo HEAD, git apply --3way, go build ./... && go test -vet=off -count=1 ./..., demo/run.sh <patched> and <clean>"},
            "when_it_arrived": "caught" if caught else "missed",
            "arrival": {"exit": c.get("exit"), "signatures": c.get("sigs", [])[:6]}}
    json.dump(meta, open(os.path.join(dst, "meta.json"), "w"), indent=1)
    print("filed", sid, meta["when_it_arrived"])
