#!/usr/bin/env python3
"""Print the sensitivity table of DESIGN.md 11.5 from seeded/*/meta.json and the notes below."""
import json, os
desc = {
 "C05e1":("dependency graph registers only 'relevant' tags: a tag consumed only by a decorator argument loses its edges","missed -> family shape: tag consumed only by a decorator argument"),
 "C05e2":("merge de-duplicates decorators by tag+function, ignoring their arguments","missed -> family shape: one decorator function twice on a tag with different arguments"),
 "C05e3":("default scopes resolved at compile time by a step wired before the decorators are compiled","caught"),
 "C08e1":("dependency lists de-duplicated through a map before the graph is built (order of circular-dependency diagnostics)","missed -> cycle-web defect classes: several cycles meeting in a hub that mentions dependencies repeatedly"),
 "C08e2":("duration of steps that took >= 1 s appended to the report","missed -> latency twin: file operations take simulated time"),
 "C08e3":("build date in the version line rendered in local time","missed -> time zone per run ($TZ -> time.Local), release-like build info in the worlds"),
 "C10e1":("a failed format leaves the unformatted source at an absent -o","caught"),
 "C10e2":("'pattern matches nothing' warning written to stderr, also with --quiet","caught"),
 "C10e3":("error list cut after 100 entries","caught"),
 "C12e1":("up-to-date check reads -o before writing (never returns on a pipe or /dev/zero)","missed -> endless virtual devices as -o: an unbounded read is a hang"),
 "C12e2":("YAML timestamps accepted as parameters; panic in argument positions","missed -> odd-scalar defect class (timestamps, binary, sets, merge keys, edge numbers)"),
 "C12e3":("scope validation indexes services by pointer (nil dereference on an undefined reference)","caught"),
 "C15e1":("chunker's quotation-mark state leaks outside %...% tokens","missed -> quotes, parentheses, backslashes in literal chunks"),
 "C15e2":("meta.functions of a later file replaces the inherited table (built-in todo/env dropped)","caught"),
 "C15e3":("default scopes resolved at compile time in the template (override with a contextual definition)","missed -> overriding definitions with a scope; model of the run-time determined default scope"),
 "C19e1":("fixed temporary file name shared by concurrent runs in one directory","missed -> concurrent processes over one directory tree with seeded interleaving of their file operations"),
 "C19e2":("--pkg flag whose default is $GOPACKAGE (go generate)","missed -> go-generate environment, env-read twin for the self-configuration"),
 "C19e3":("Lstat+IsRegular filter drops symbolic links among the matches","missed -> linked configuration files"),
 "C20e1":("scope validator does not look behind non_shared services","caught"),
 "C20e2":("_concatenateChunks evaluates every chunk twice","missed -> function tokens inside multi-chunk patterns"),
 "C20e3":("lazily built getter error prefixes with broken double-checked locking","missed -> fault injection in the reader workloads (failing getters under the scheduler)"),
 "C05a1":("scope validator mixes param/tag/service namespaces","missed -> cross-namespace name collisions generated"),
 "C05a2":("merge drops a scope declared in an earlier file","caught"),
 "C05a3":("Must<Getter>InContext calls the context-less getter","caught"),
 "C05b1":("decorator dependency buffer leaks from decorator #0 to #n (false rejection)","missed -> two-decorator shapes in the exhaustive family"),
 "C05b2":("value services evaluated once (SetValue) - non-shared values shared","caught"),
 "C05b3":("todo services lose their declared scope (missed rejection)","missed -> scoped todo placeholders (random + exhaustive shape)"),
 "C05c1":("scope validator stops at the first undefined dependency (needs --ignore-missing-services)","missed -> undefined-reference variants of the exhaustive family"),
 "C05c2":("<Getter>InContext of an argument-less non_shared service bypasses the context (decorator deps)","missed -> decorated bare value with typed getters in the exhaustive family"),
 "C08a1":("case-insensitive unstable key sort","caught"),
 "C08a2":("fields resolved in raw map order (alias numbering)","missed -> services with several fields from distinct unused packages"),
 "C08a3":("report width from $COLUMNS","caught (twin sets every variable the base run read)"),
 "C08b1":("goroutine batches for >=16 services change alias numbering","crashed the runtime (exit 2) -> simrt goroutine-safe, big worlds, replay retries"),
 "C08b2":("temp-file name in diagnostics for non-ENOENT create-temp errors","missed -> fault twins (which then found the same defect in my own repair, F7)"),
 "C08b3":("cwd-relative path in the duplicate-pattern diagnostic for absolute patterns","missed -> absolute input roots"),
 "C08c1":("write skipped when -o already holds the same code under another version line","missed -> previous-output twin"),
 "C08c2":("dangling relative symlink -o resolved against cwd","missed -> dangling-link outputs + run-from twin (same files, command started from another directory); C10 flags it too (exit 0 without output)"),
 "C10a1":("glob matches no longer cleaned (double match by spelling)","missed -> respelled duplicates made frequent"),
 "C10a2":("error list split on newlines","caught"),
 "C10a3":("write error overwritten by close (rebased)","caught"),
 "C10b1":("no O_TRUNC when writing through a symlink (stale tail)","missed -> symlinked outputs + fresh-path twin (which then found F8 in my own repair)"),
 "C10b2":("identical error messages printed once (count mismatch)","caught"),
 "C10b3":("per-pattern err variable overwritten by a later success","caught"),
 "C10c1":("in-place fallback when the temp file cannot be created; second fault truncates -o","missed -> second-order fault sweep on operations revealed by a fault"),
 "C10c2":("exit status = number of errors (256 wraps to 0)","missed -> exit status modelled as 8 bits + many-errors family (C12's monitor flags any status other than 0/1 at once)"),
 "C12a1":("exponential walk in scope validation","caught"),
 "C12a2":("slice bounds panic for long file names","caught"),
 "C12a3":("nil dereference in merge","caught"),
 "C12b1":("alias expansion loops when a target begins with an alias","missed -> alias tables with chained/cyclic targets"),
 "C12b2":("concurrent map writes while reading files (runtime fatal error)","killed the worker (exit 2) -> dying builds re-run one process per build, reported as process-died"),
 "C12b3":("indent leak -> negative strings.Repeat with >=7 multi-error files","missed -> many-files family"),
 "C12c1":("index out of range for single-element version-like import paths (v2)","missed -> version-like single-element references"),
 "C12c2":("hand-rolled symlink resolution spins on a cycle not containing -o","missed -> symlink-cycle / self / dangling outputs"),
 "C15a1":("generated getParam memoizes across overrides","caught"),
 "C15a2":("function token split at the last '('","missed -> todo messages with parentheses"),
 "C15a3":("alias params collapsed at compile time","caught"),
 "C15b1":("_concatenateChunks swallows the first chunk's error","caught"),
 "C15b2":("merge drops the todo flag of a service declared in two files","missed -> complete-but-todo services split across files"),
 "C15b3":("constructor warm-up evaluates leaf parameters","caught"),
 "C15c1":("todo message used as a printf format","missed -> message must END the error text; percent-laden messages incl. the exhaustive configuration"),
 "C15c2":("unique-getter validator does not skip todo services","missed -> placeholders that keep a (duplicate) getter"),
 "C19a1":("worker pool: schedule-dependent alias numbering","found, driver exited 2 -> replay retries for nondeterministic programs"),
 "C19a2":("os.Create pre-check truncates -o","caught"),
 "C19a3":("'-dirty' build info adds lines","caught"),
 "C19b1":("helperPackages map iterated eagerly","caught"),
 "C19b2":("goimports in a goroutine with a 1 s timeout fallback","missed -> timer buggify seam"),
 "C19b3":("'// source:' header lines with paths as spelled","missed -> equivalent invocation spellings"),
 "C19c1":("in-place fallback without truncation when the temp file cannot be created","missed -> write-path faults in faulted regenerations"),
 "C19c2":("version: 0.1.0 added to gontainer.yaml (release builds reject their own configuration)","caught"),
 "C20a1":("shared buffer in _concatenateChunks","caught (one replay missed -> 25 executions)"),
 "C20a2":("bare value services emitted non-shared","missed -> bare value services, named by the top-level operation"),
 "C20a3":("params inlined into services","caught"),
 "C20b1":("env memo map written under RLock","caught"),
 "C20b2":("getter-level sync.Map cache pins contextual dependencies","caught"),
 "C20b3":("generator resolves default scope treating non_shared deps as contextual","caught"),
 "C20c1":("untyped value services emitted as SetValue","caught"),
 "C20c2":("merge rewritten, scope forgotten","caught"),
 "C05d1":("--stub switches the whole 'Validate output' step off (scope rule skipped)","missed -> verdict workload also built with --stub"),
 "C05d2":("AllArgs() rewrite: a later call overwrites an earlier call's dependency metadata","missed -> two-call shape in the exhaustive family"),
 "C08d1":("fixed temp-file name opened without O_TRUNC/O_EXCL (stale tail from a leftover)","missed -> directory-noise twin (unrelated files next to -o)"),
 "C08d2":("os.ExpandEnv on -i / -o","missed -> directories named like shell variables (the env twin then sets every variable the run read)"),
 "C10d1":("sticky stdout error: exit 1 after -o was replaced","not exercised by design until then -> broken-stdout runs judged on status vs file effects only"),
 "C10d2":("non-regular matches (directory, dangling link) silently skipped","caught"),
 "C12d1":("'**' glob support compiles character classes into a regexp (panic)","missed -> '**' patterns with odd character classes"),
 "C12d2":("mergeCalls compares call arguments with == (panic on lists/maps)","missed -> duplicated-declarations family"),
 "C15d1":("todo services keep their sketched arguments (validators see them)","missed -> placeholders with sketches that refer to undeclared names"),
 "C15d2":("empty todo message falls back to the default","missed -> empty message in the pool and in the exhaustive configuration; the default must not replace a given message"),
 "C19d1":("relative patterns joined with cwd and globbed (cwd with glob metacharacters)","missed -> working directories with glob metacharacters"),
 "C19d2":("make-style up-to-date check by mtimes skips the build","missed -> stale content at -o, inputs older than -o, real executable path"),
 "C20d1":("scope validation graph built without decorators","caught"),
 "C20d2":("!tagged bound at compile time (runtime graph loses the tag edge)","caught"),
}
base = os.path.join(os.path.dirname(os.path.abspath(__file__)), "..", "seeded")
print("| id | change | caught now by (first signature, quick tier) | when it arrived |")
print("|---|---|---|---|")
for sid in sorted(os.listdir(base)):
    mp = os.path.join(base, sid, "meta.json")
    if not os.path.exists(mp):
        continue
    m = json.load(open(mp))
    d = m.get("detection", {})
    sigs = d.get("signatures") or []
    s = sigs[0] if sigs else ("NOT DETECTED" if d.get("exit") == 0 else str(d.get("error", d.get("exit"))))
    if len(s) > 90:
        s = s[:87] + "..."
    s = s.replace("|", "\\|")
    what, first = desc.get(sid, ("", ""))
    print(f"| {sid} | {what} | {m['property']} `{s}` | {first} |")

import collections
c = collections.Counter("caught" if v[1].startswith("caught") else ("machinery" if ("exit 2" in v[1] or "crashed" in v[1]) else "missed") for v in desc.values())
print()
print("arrival outcomes:", dict(c))
