#!/usr/bin/env python3
"""Replace the sensitivity table of DESIGN.md 11.5 by the output of tools/seedtable.py."""
import subprocess, re, os
here = os.path.dirname(os.path.abspath(__file__))
out = subprocess.run(["python3", os.path.join(here, "seedtable.py")], capture_output=True, text=True).stdout
table = out.split("\n\narrival outcomes:")[0].rstrip("\n")
p = os.path.join(here, "..", "DESIGN.md")
s = open(p).read()
a = s.index("| id | change | caught now by (first signature, quick tier) | when it arrived |")
b = s.index("\n\n", a)
s = s[:a] + table + s[b:]
open(p, "w").write(s)
print("rows:", table.count("\n") - 1)
