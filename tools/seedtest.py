#!/usr/bin/env python3
"""Verify seeded defects and run the checks against them.

usage: seedtest.py <seeded-root> <outfile.json> [ID/k ...]
For every <seeded-root>/<TAG>/<k>/ (patch.diff, demo/run.sh): in a scratch worktree of /repo HEAD
  1. apply the patch (3-way), build, run the unit tests          -> must pass
  2. demo/run.sh on the patched tree (must fail) and on a clean tree (must pass)
  3. run the quick tier of the property's check (and optionally others) with --repo <worktree>
The worktree is removed afterwards.
"""
import json, os, subprocess, sys, shutil, time

ENV = dict(os.environ, GOFLAGS="-mod=mod", GOPROXY="off", GOSUMDB="off", GOTOOLCHAIN="local")
VERIF = "/verif"

def sh(cmd, cwd=None, timeout=1800):
    try:
        p = subprocess.run(cmd, shell=True, cwd=cwd, env=ENV, stdout=subprocess.PIPE, stderr=subprocess.STDOUT, timeout=timeout, text=True)
        return p.returncode, p.stdout
    except subprocess.TimeoutExpired as e:
        return 124, (e.stdout or "") + "\nTIMEOUT"

def detect_only():
    """seedtest.py --detect-only [ids...]: for every /verif/seeded/<id>: apply patch.diff to a scratch worktree of
    /repo HEAD, run the quick tier of the property's check on it, record the outcome in meta.json (detection)."""
    only = set(sys.argv[2:])
    base = os.path.join(VERIF, "seeded")
    for sid in sorted(os.listdir(base)):
        d = os.path.join(base, sid)
        mp = os.path.join(d, "meta.json")
        if not os.path.exists(mp) or (only and sid not in only):
            continue
        meta = json.load(open(mp))
        prop = meta["property"]
        wt = f"/tmp/mw-{sid}"
        sh(f"git -C /repo worktree remove --force {wt}")
        shutil.rmtree(wt, ignore_errors=True)
        sh(f"git -C /repo worktree add -q --detach {wt} HEAD")
        patch = f"{d}/patch.rebased.diff" if os.path.exists(f"{d}/patch.rebased.diff") else f"{d}/patch.diff"
        rc, out = sh(f"git apply --3way {patch} && git reset -q", cwd=wt)
        if rc != 0:
            meta["detection"] = {"error": "patch does not apply to /repo HEAD", "out": out[-400:]}
        else:
            t0 = time.time()
            rc, out = sh(f"{VERIF}/bin/vcheck {prop} --tier quick --repo {wt}", cwd=VERIF, timeout=3000)
            sigs = sorted(set(l.strip()[len("signature: "):] for l in out.splitlines() if l.strip().startswith("signature: ")))
            meta["detection"] = {"check": f"bin/vcheck {prop} --tier quick --repo <patched worktree>", "exit": rc, "signatures": sigs[:8], "wall_s": round(time.time() - t0),
                                 "repo_head": sh("git -C /repo rev-parse --short HEAD")[1].strip(), "verif_head": sh("git -C /verif rev-parse --short HEAD")[1].strip()}
            if rc not in (0, 1):
                meta["detection"]["tail"] = out[-600:]
            for p2 in meta.get("also_check", []):
                rc2, out2 = sh(f"{VERIF}/bin/vcheck {p2} --tier quick --repo {wt}", cwd=VERIF, timeout=3000)
                sigs2 = sorted(set(l.strip()[len("signature: "):] for l in out2.splitlines() if l.strip().startswith("signature: ")))
                meta.setdefault("detection_by_other_checks", {})[p2] = {"exit": rc2, "signatures": sigs2[:6]}
        json.dump(meta, open(mp, "w"), indent=1)
        sh(f"git -C /repo worktree remove --force {wt}")
        shutil.rmtree(wt, ignore_errors=True)
        print(sid, prop, meta["detection"].get("exit"), meta["detection"].get("signatures", meta["detection"].get("error")), flush=True)

def main():
    if sys.argv[1] == "--detect-only":
        return detect_only()
    root, outfile = sys.argv[1], sys.argv[2]
    only = set(sys.argv[3:])
    results = json.load(open(outfile)) if os.path.exists(outfile) else {}
    tags = sorted(os.listdir(root))
    for tag in tags:
        prop = tag.split("-")[0]
        for k in sorted(os.listdir(os.path.join(root, tag))):
            d = os.path.join(root, tag, k)
            key = f"{tag}/{k}"
            if not os.path.exists(os.path.join(d, "patch.diff")):
                continue
            if only and key not in only and tag not in only:
                continue
            r = {"prop": prop}
            wt = f"/tmp/mw-{tag}-{k}"
            clean = f"/tmp/mc-{tag}-{k}"
            for w in (wt, clean):
                sh(f"git -C /repo worktree remove --force {w}")
                shutil.rmtree(w, ignore_errors=True)
            sh(f"git -C /repo worktree add -q --detach {wt} HEAD")
            sh(f"git -C /repo worktree add -q --detach {clean} HEAD")
            patch = os.path.join(d, "patch.rebased.diff") if os.path.exists(os.path.join(d, "patch.rebased.diff")) else os.path.join(d, "patch.diff")
            demo = "demo-rebased" if os.path.exists(os.path.join(d, "demo-rebased")) else "demo"
            r["patch"] = os.path.basename(patch)
            rc, out = sh(f"git apply --3way {patch} && git reset -q", cwd=wt)
            r["apply"] = rc == 0
            r["apply_out"] = out[-600:]
            if rc == 0:
                rc, out = sh("go build ./... && go test -vet=off -count=1 ./...", cwd=wt)
                r["tests_pass"] = rc == 0
                if rc != 0:
                    r["tests_out"] = out[-1500:]
                run = os.path.join(d, demo, "run.sh")
                if os.path.exists(run):
                    rc1, o1 = sh(f"bash {run} {wt}", cwd=os.path.join(d, demo), timeout=1200)
                    rc2, o2 = sh(f"bash {run} {clean}", cwd=os.path.join(d, demo), timeout=1200)
                    r["demo_fails_patched"] = rc1 != 0
                    r["demo_passes_clean"] = rc2 == 0
                    r["demo_patched_tail"] = o1[-500:]
                    if rc2 != 0:
                        r["demo_clean_tail"] = o2[-800:]
                # the demos may leave files in the trees
                sh("git reset -q --hard HEAD && git clean -fdq", cwd=wt)
                sh("git reset -q --hard HEAD && git clean -fdq", cwd=clean)
                sh(f"git apply --3way {patch} && git reset -q", cwd=wt)
                r["checks"] = {}
                for p in [prop] + [x for x in os.environ.get("ALSO", "").split(",") if x and x != prop]:
                    t0 = time.time()
                    rc, out = sh(f"{VERIF}/bin/vcheck {p} --tier quick --repo {wt}", cwd=VERIF, timeout=3000)
                    sigs = [l.strip()[len("signature: "):] for l in out.splitlines() if l.strip().startswith("signature: ")]
                    r["checks"][p] = {"exit": rc, "sigs": sigs, "s": round(time.time() - t0), "tail": out[-700:] if rc not in (0, 1) else ""}
            for w in (wt, clean):
                sh(f"git -C /repo worktree remove --force {w}")
                shutil.rmtree(w, ignore_errors=True)
            results[key] = r
            json.dump(results, open(outfile, "w"), indent=1)
            c = r.get("checks", {}).get(prop, {})
            print(key, "apply", r.get("apply"), "tests", r.get("tests_pass"), "demo", r.get("demo_fails_patched"), r.get("demo_passes_clean"), "check-exit", c.get("exit"), c.get("sigs"), flush=True)

main()
