#!/bin/bash
# Reach measurement: statement coverage of /repo's own packages under the simulated worlds of the
# engine-1 quick tiers (the worker is built with -cover; nothing here is a check, nothing is judged).
# usage: tools/reach.sh [tier]     -> prints per-package percentages and the uncovered blocks
set -eu
cd "$(dirname "$0")/.."
export GOFLAGS=-mod=mod GOPROXY=off GOSUMDB=off GOTOOLCHAIN=local VERIF_DIR="$PWD"
tier="${1:-quick}"
cov=$(mktemp -d /var/tmp/verif-reach-XXXXXX)
trap 'rm -rf "$cov"' EXIT
go build -o bin/vcheck ./cmd/vcheck
mkdir -p "$cov/data" "$cov/ev"
for p in C08 C10 C12 C19; do
  # evidence of a cover build is not evidence of the check: write it elsewhere
  VERIF_COVER=1 GOCOVERDIR="$cov/data" VERIF_EVIDENCE_DIR="$cov/ev" bin/vcheck $p --tier "$tier" | tail -1
done
go tool covdata percent -i="$cov/data"
go tool covdata textfmt -i="$cov/data" -o "$cov/cov.txt"
echo "--- blocks never executed (outside the self-hosted container) ---"
awk 'NR>1 && $NF==0 {print $1}' "$cov/cov.txt" | grep -v internal/gontainer/ | sort
