package rsim

import (
	"fmt"
	"regexp"
	"strings"

	"verifsim/choice"
	"verifsim/gen"
	"verifsim/sched"
)

// Violation of an engine-2 check.
type Violation struct {
	Property string   `json:"property"`
	Sig      string   `json:"sig"`
	Detail   string   `json:"detail"`
	Config   string   `json:"config"`
	Cfg      *gen.Cfg `json:"cfg"`
	Plan     *Plan    `json:"plan"`
	Trace    []uint8  `json:"trace,omitempty"`
	Choices  []int    `json:"choices,omitempty"`
	Seed     uint64   `json:"seed"`
	Index    int      `json:"index"`
	Engine   int      `json:"engine"`
}

type Stats struct {
	Runs        int            `json:"runs"`
	Ops         int            `json:"ops"`
	Steps       int            `json:"steps"`
	Contended   int            `json:"contended"`
	Blocks      int            `json:"blocks"`
	Policies    map[string]int `json:"policies"`
	Outcomes    map[string]int `json:"outcomes"`
	OpKinds     map[string]int `json:"op_kinds"`
	Probes      map[string]int `json:"probes"`
	Scopes      map[string]int `json:"scopes"`
	Faults      map[string]int `json:"faults"`
	Distinct    map[string]int `json:"-"`
	Interleave  map[string]int `json:"-"`
	Samples     []any          `json:"samples"`
	PerConfig   map[string]int `json:"per_config"`
}

func NewStats() *Stats {
	return &Stats{Policies: map[string]int{}, Outcomes: map[string]int{}, OpKinds: map[string]int{}, Probes: map[string]int{}, Scopes: map[string]int{},
		Faults: map[string]int{}, Distinct: map[string]int{}, Interleave: map[string]int{}, PerConfig: map[string]int{}}
}

var policyNames = []string{"random", "pct", "starve", "round-robin", "sticky"}

func (st *Stats) note(e *Entry, p *Plan, out *RunOut) {
	st.Runs++
	st.PerConfig[e.Name]++
	st.Steps += out.Sched.Steps
	st.Contended += out.Sched.Contended
	st.Blocks += out.Sched.Blocks
	st.Policies[policyNames[p.Sched.Policy%len(policyNames)]]++
	st.Outcomes[out.Sched.Outcome]++
	for _, t := range p.Tasks {
		for _, o := range t {
			st.OpKinds[o.Kind]++
			st.Ops++
		}
	}
	if out.Sched.Blocks > 0 {
		st.Probes["runs-where-a-task-blocked-on-a-lock"]++
	}
	if out.Sched.Contended > 0 {
		st.Probes["runs-with-contended-decisions"]++
	}
	h := fmt.Sprintf("%s|%s|%v", e.Name, planString(p), out.Sched.Trace)
	st.Distinct[shortHash(h)]++
	if out.Sched.Contended > 0 {
		st.Interleave[shortHash(fmt.Sprintf("%s|%v", e.Name, out.Sched.Trace))]++
	}
}

func shortHash(s string) string {
	h := uint64(1469598103934665603)
	for i := 0; i < len(s); i++ {
		h ^= uint64(s[i])
		h *= 1099511628211
	}
	return fmt.Sprintf("%016x", h)
}

type checkFn func(e *Entry, src *choice.Src, st *Stats) *Violation

var checks = map[string]checkFn{"C05": CheckC05, "C20": CheckC20}

var judges = map[string]func(e *Entry, p *Plan, out *RunOut) *Violation{"C05": judgeC05, "C20": judgeC20}

func mkViolation(prop, sig, detail string, e *Entry, p *Plan, out *RunOut) *Violation {
	v := &Violation{Property: prop, Sig: sig, Detail: detail, Config: e.Name, Cfg: e.Cfg, Plan: p, Engine: 2}
	if out != nil && out.Sched != nil {
		v.Trace = out.Sched.Trace
		v.Detail += "\nhistory:\n" + historyString(out.Results)
	}
	v.Detail += "plan:\n" + planString(p)
	return v
}

// CheckC05: histories of Get/GetInContext/GetTaggedBy/getters, sequential (1 task) and
// interleaved (2-4 tasks), judged by the scope reference model.
func CheckC05(e *Entry, src *choice.Src, st *Stats) *Violation {
	minT, maxT := 1, 4
	if src.Chance("sequential", 1, 2) {
		maxT = 1
	}
	p := genReaderPlan(src, e.Cfg, minT, maxT, 10, false)
	out := RunPlan(e, p)
	if st != nil {
		st.note(e, p, out)
		for _, s := range gen.EffectiveScope(e.Cfg) {
			st.Scopes[s]++
		}
		if len(st.Samples) < 3 {
			st.Samples = append(st.Samples, map[string]any{"config": e.Name, "services": svcSummary(e.Cfg), "plan": p.Tasks, "policy": policyNames[p.Sched.Policy%len(policyNames)], "contended_decisions": out.Sched.Contended})
		}
	}
	if out.Sched.Outcome != "finished" && st != nil {
		st.Probes["no-progress-(reported-under-C20)"]++
	}
	return judgeC05(e, p, out)
}

func judgeC05(e *Entry, p *Plan, out *RunOut) *Violation {
	if out.Sched.Outcome != "finished" {
		return nil
	}
	return judgeIdentity("C05", e, p, out)
}

func svcSummary(cfg *gen.Cfg) []string {
	eff := gen.EffectiveScope(cfg)
	var out []string
	for _, s := range cfg.Services {
		d := s.Scope
		if d == "" {
			d = "unset"
		}
		out = append(out, fmt.Sprintf("%s[%s->%s] deps=%v tags=%v", s.Name, d, eff[s.Name], gen.DirectDeps(cfg, &s), s.Tags))
	}
	return out
}

func judgeIdentity(prop string, e *Entry, p *Plan, out *RunOut) *Violation {
	for _, r := range out.Results {
		if r.Panic != "" {
			return mkViolation(prop, "operation-panicked:"+r.Op.Kind, fmt.Sprintf("%s panicked: %s", r.Op, r.Panic), e, p, out)
		}
		if r.Err != "" {
			return mkViolation(prop, "unexpected-error:"+r.Op.Kind+":"+errClass(r.Err), fmt.Sprintf("%s failed although no fault is armed and every symbol exists: %s", r.Op, r.Err), e, p, out)
		}
	}
	if c, d := CheckIdentity(e.Cfg, Observe(e.Cfg, out.Results)); c != "" {
		return mkViolation(prop, "identity:"+c, d, e, p, out)
	}
	return nil
}

var reQuoted = regexp.MustCompile(`"[^"]*"|\d+`)

func errClass(s string) string {
	s = reQuoted.ReplaceAllString(s, "_")
	if i := strings.LastIndex(s, ": "); i >= 0 && i+2 < len(s) {
		s = s[i+2:]
	}
	if len(s) > 60 {
		s = s[:60]
	}
	return s
}

// CheckC20: 2-8 tasks of reader operations on one container under the seeded scheduler, with
// the race detector active under that schedule.
func CheckC20(e *Entry, src *choice.Src, st *Stats) *Violation {
	p := genReaderPlan(src, e.Cfg, 2, 8, 24, true)
	out := RunPlan(e, p)
	if st != nil {
		st.note(e, p, out)
		if len(st.Samples) < 3 {
			st.Samples = append(st.Samples, map[string]any{"config": e.Name, "services": svcSummary(e.Cfg), "plan": p.Tasks, "policy": policyNames[p.Sched.Policy%len(policyNames)],
				"steps": out.Sched.Steps, "contended_decisions": out.Sched.Contended, "blocks": out.Sched.Blocks})
		}
	}
	return judgeC20(e, p, out)
}

func judgeC20(e *Entry, p *Plan, out *RunOut) *Violation {
	// (a) data races, reported by the race detector under the simulated schedule
	if out.RaceText != "" {
		return mkViolation("C20", "data-race:"+raceSig(out.RaceText), "the race detector reported under this schedule:\n"+firstReport(out.RaceText), e, p, out)
	}
	// (d) bounded progress
	if out.Sched.Outcome != "finished" {
		return mkViolation("C20", "no-progress:"+out.Sched.Outcome, fmt.Sprintf("reader operations did not complete: %s after %d steps; blocked tasks %v", out.Sched.Outcome, out.Sched.Steps, out.Sched.Blocked), e, p, out)
	}
	// (b) at most once
	eff := gen.EffectiveScope(e.Cfg)
	ctor := map[string]int{}
	fn := map[string]int{}
	for _, ev := range out.Sched.Events {
		if ev.B != "ok" {
			continue
		}
		switch ev.Kind {
		case "ctor":
			ctor[ev.A]++
		case "fn":
			fn[ev.A]++
		}
	}
	for name, n := range ctor {
		if eff[name] == "shared" && n > 1 {
			return mkViolation("C20", "shared-constructed-more-than-once", fmt.Sprintf("shared service %q was successfully constructed %d times", name, n), e, p, out)
		}
	}
	for name, n := range fn {
		if n > 1 {
			return mkViolation("C20", "parameter-evaluated-more-than-once", fmt.Sprintf("parameter function %s(%q) was evaluated %d times on one container", "fn", name, n), e, p, out)
		}
	}
	// (c) context isolation and the rest of the identity model; values of parameters must agree
	if v := judgeIdentity("C20", e, p, out); v != nil {
		return v
	}
	seen := map[string]string{}
	for _, r := range out.Results {
		if r.Op.Kind == "GetParam" && r.Val != nil {
			if old, ok := seen[r.Op.Name]; ok && old != r.Val.V {
				return mkViolation("C20", "parameter-value-changed", fmt.Sprintf("parameter %q was observed as %s and as %s on one container", r.Op.Name, old, r.Val.V), e, p, out)
			}
			seen[r.Op.Name] = r.Val.V
		}
	}
	return nil
}

var reGenPkg = regexp.MustCompile(`^c[0-9]+\.`)

var reFrame = regexp.MustCompile(`(?m)^  ([A-Za-z0-9_./*()\-]+)\(\)$`)

// raceSig names the first frames of the two stacks that are not in the runtime or the simulator.
func raceSig(text string) string {
	var fr []string
	for _, m := range reFrame.FindAllStringSubmatch(firstReport(text), -1) {
		f := m[1]
		if strings.HasPrefix(f, "runtime.") || strings.Contains(f, "verifsim/") || strings.HasPrefix(f, "sync") || strings.HasPrefix(f, "reflect.") {
			continue
		}
		if i := strings.LastIndex(f, "/"); i >= 0 {
			f = f[i+1:]
		}
		f = reGenPkg.ReplaceAllString(f, "gen.")
		dup := false
		for _, x := range fr {
			if x == f {
				dup = true
			}
		}
		if !dup {
			fr = append(fr, f)
		}
		if len(fr) == 2 {
			break
		}
	}
	return strings.Join(fr, "<->")
}

func firstReport(text string) string {
	i := strings.Index(text, "WARNING: DATA RACE")
	if i < 0 {
		return text
	}
	rest := text[i:]
	if j := strings.Index(rest[10:], "=================="); j >= 0 {
		rest = rest[:j+10]
	}
	if len(rest) > 4000 {
		rest = rest[:4000]
	}
	return rest
}

var _ = sched.MaxTasks
