package rsim

import (
	"fmt"
	"regexp"
	"strings"

	"verifsim/choice"
	"verifsim/gen"
	"verifsim/sched"
)

// Violation of an engine-2 check.
type Violation struct {
	Property string   `json:"property"`
	Sig      string   `json:"sig"`
	Detail   string   `json:"detail"`
	Config   string   `json:"config"`
	Cfg      *gen.Cfg `json:"cfg"`
	Plan     *Plan    `json:"plan"`
	Trace    []uint8  `json:"trace,omitempty"`
	Choices  []int    `json:"choices,omitempty"`
	Seed     uint64   `json:"seed"`
	Index    int      `json:"index"`
	Engine   int      `json:"engine"`
	// Prelude (C15): the histories that ran before this one on other containers of the same generated type
	// in the same process. A violation that does not show when the history runs alone in a fresh process is
	// replayed after them: state shared between the containers of one process is a defect of its own
	// ("nothing of the first container may carry over").
	Prelude [][]Op `json:"prelude,omitempty"`
}

type Stats struct {
	Runs       int            `json:"runs"`
	Ops        int            `json:"ops"`
	Steps      int            `json:"steps"`
	Contended  int            `json:"contended"`
	Blocks     int            `json:"blocks"`
	Policies   map[string]int `json:"policies"`
	Outcomes   map[string]int `json:"outcomes"`
	OpKinds    map[string]int `json:"op_kinds"`
	Probes     map[string]int `json:"probes"`
	Scopes     map[string]int `json:"scopes"`
	Faults     map[string]int `json:"faults"`
	Distinct   map[string]int `json:"-"`
	Interleave map[string]int `json:"-"`
	Samples    []any          `json:"samples"`
	PerConfig  map[string]int `json:"per_config"`
}

func NewStats() *Stats {
	return &Stats{Policies: map[string]int{}, Outcomes: map[string]int{}, OpKinds: map[string]int{}, Probes: map[string]int{}, Scopes: map[string]int{},
		Faults: map[string]int{}, Distinct: map[string]int{}, Interleave: map[string]int{}, PerConfig: map[string]int{}}
}

var policyNames = []string{"random", "pct", "starve", "round-robin", "sticky"}

func (st *Stats) note(e *Entry, p *Plan, out *RunOut) {
	st.Runs++
	st.PerConfig[e.Name]++
	st.Steps += out.Sched.Steps
	st.Contended += out.Sched.Contended
	st.Blocks += out.Sched.Blocks
	st.Policies[policyNames[p.Sched.Policy%len(policyNames)]]++
	st.Outcomes[out.Sched.Outcome]++
	for _, t := range p.Tasks {
		for _, o := range t {
			st.OpKinds[o.Kind]++
			st.Ops++
		}
	}
	for _, f := range p.Pre {
		if f.Kind == "OvSvc" {
			st.Probes["runs-with-overridden-todo-placeholders"]++
			break
		}
	}
	nf := 0
	for _, f := range p.Pre {
		if f.Kind != "OvSvc" {
			nf++
		}
	}
	if nf > 0 {
		st.Probes["runs-with-injected-faults"]++
		for _, f := range p.Pre {
			k := f.Kind
			if f.Kind == "Arm" {
				k = "armed-failure-of-" + strings.SplitN(f.Name, ":", 2)[0]
			} else if f.Kind == "UnsetEnv" {
				k = "environment-variable-removed"
			}
			st.Faults[k]++
		}
		// fired, not merely planned: callbacks that reported a failure
		for _, ev := range out.Sched.Events {
			if ev.B == "fail" {
				st.Faults["fired:"+ev.Kind+"-failure"]++
			}
		}
		for _, r := range out.Results {
			if r.Err != "" || r.Panic != "" {
				st.Probes["operations-that-failed-under-a-fault"]++
			}
		}
	}
	if out.Sched.Blocks > 0 {
		st.Probes["runs-where-a-task-blocked-on-a-lock"]++
	}
	if out.Sched.Spawned > 0 {
		st.Probes["goroutines-started-by-the-code-under-simulation"] += out.Sched.Spawned
	}
	if out.Sched.Outcome != "finished" && out.Sched.Polling > 0 {
		st.Probes["runs-ending-with-tasks-polling-channels-(not-judged)"]++
	}
	if out.Sched.Outcome == "stalled" {
		st.Probes["runs-stalled-in-an-operation-the-simulation-does-not-know-(not-judged)"]++
	}
	if out.Sched.Contended > 0 {
		st.Probes["runs-with-contended-decisions"]++
	}
	h := fmt.Sprintf("%s|%s|%v", e.Name, planString(p), out.Sched.Trace)
	st.Distinct[shortHash(h)]++
	if out.Sched.Contended > 0 {
		st.Interleave[shortHash(fmt.Sprintf("%s|%v", e.Name, out.Sched.Trace))]++
	}
}

func shortHash(s string) string {
	h := uint64(1469598103934665603)
	for i := 0; i < len(s); i++ {
		h ^= uint64(s[i])
		h *= 1099511628211
	}
	return fmt.Sprintf("%016x", h)
}

type checkFn func(e *Entry, src *choice.Src, st *Stats) *Violation

var checks = map[string]checkFn{"C05": CheckC05, "C20": CheckC20}

var judges = map[string]func(e *Entry, p *Plan, out *RunOut) *Violation{"C05": judgeC05, "C20": judgeC20}

func mkViolation(prop, sig, detail string, e *Entry, p *Plan, out *RunOut) *Violation {
	cfg := e.Cfg
	if e.Orig != nil {
		cfg = e.Orig
	}
	v := &Violation{Property: prop, Sig: sig, Detail: detail, Config: e.Name, Cfg: cfg, Plan: p, Engine: 2}
	if out != nil && out.Sched != nil {
		v.Trace = out.Sched.Trace
		v.Detail += "\nhistory:\n" + historyString(out.Results)
	}
	if len(p.Pre) > 0 {
		v.Detail += fmt.Sprintf("faults injected before the tasks started: %v\n", p.Pre)
	}
	v.Detail += "plan:\n" + planString(p)
	return v
}

// CheckC05: histories of Get/GetInContext/GetTaggedBy/getters, sequential (1 task) and
// interleaved (2-4 tasks), judged by the scope reference model.
func CheckC05(e *Entry, src *choice.Src, st *Stats) *Violation {
	minT, maxT := 1, 4
	if src.Chance("sequential", 1, 2) {
		maxT = 1
	}
	p := genReaderPlan(src, e.Cfg, minT, maxT, 10, false)
	p.Pre = append(genOverrides(src, e.Cfg), genFaults(src, e.Cfg)...)
	out := RunPlan(e, p)
	if st != nil {
		st.note(e, p, out)
		for _, s := range gen.EffectiveScope(e.Cfg) {
			st.Scopes[s]++
		}
		if len(st.Samples) < 3 {
			st.Samples = append(st.Samples, map[string]any{"config": e.Name, "services": svcSummary(e.Cfg), "plan": p.Tasks, "policy": policyNames[p.Sched.Policy%len(policyNames)], "contended_decisions": out.Sched.Contended})
		}
	}
	if out.Sched.Outcome != "finished" && st != nil {
		st.Probes["no-progress-(reported-under-C20)"]++
	}
	return judgeC05(e, p, out)
}

func judgeC05(e *Entry, p *Plan, out *RunOut) *Violation {
	e = effectiveEntry(e, p)
	if out.Sched.Outcome != "finished" {
		return nil
	}
	return judgeIdentity("C05", e, p, out)
}

func svcSummary(cfg *gen.Cfg) []string {
	eff := gen.EffectiveScope(cfg)
	var out []string
	for _, s := range cfg.Services {
		d := s.Scope
		if d == "" {
			d = "unset"
		}
		out = append(out, fmt.Sprintf("%s[%s->%s] deps=%v tags=%v", s.Name, d, eff[s.Name], gen.DirectDeps(cfg, &s), s.Tags))
	}
	return out
}

func judgeIdentity(prop string, e *Entry, p *Plan, out *RunOut) *Violation {
	// cancellation of an attached context: an operation invoked after the cancel returned must fail without
	// running user code; one that overlaps the cancel (concurrent tasks) may fail or succeed
	expected := map[*OpResult]bool{} // operations whose failure is the required (or a permitted) outcome
	cancelInv, cancelRet := map[int]int64{}, map[int]int64{}
	ckey := func(r *OpResult) int {
		c := r.Op.Ctx % p.NCtx
		if p.Multi {
			c += 1000 * (r.Task + 1) // every task has a container and contexts of its own
		}
		return c
	}
	for _, r := range out.Results {
		if r.Op.Kind == "Cancel" {
			c := ckey(r)
			if _, ok := cancelInv[c]; !ok {
				cancelInv[c], cancelRet[c] = r.Invoke, r.Return
			}
		}
	}
	sequential := len(p.Tasks) == 1
	for _, r := range out.Results {
		switch r.Op.Kind {
		case "GetCtx", "TaggedCtx", "GetterCtx", "MustGetterCtx":
			c := ckey(r)
			inv, ok := cancelInv[c]
			if !ok {
				continue
			}
			failed := r.Err != "" || r.Panic != ""
			switch {
			case r.Invoke > cancelRet[c]:
				if !failed {
					return mkViolation(prop, "operation-on-cancelled-context-succeeded:"+r.Op.Kind, fmt.Sprintf("%s succeeded although its context had been cancelled", r.Op), e, p, out)
				}
				if sequential && r.Events > 0 {
					return mkViolation(prop, "construction-under-cancelled-context:"+r.Op.Kind, fmt.Sprintf("%s ran %d user callbacks although its context had been cancelled", r.Op, r.Events), e, p, out)
				}
				if r.Panic == "" || strings.HasPrefix(r.Op.Kind, "MustGetter") {
					expected[r] = true
				}
			case r.Return > inv && failed && (r.Panic == "" || strings.HasPrefix(r.Op.Kind, "MustGetter")):
				expected[r] = true // in flight while the context was cancelled
			}
		}
	}
	for _, r := range out.Results {
		if r.Op.Kind == "Cancel" || expected[r] {
			continue
		}
		may, must, why := faultVerdict(e.Cfg, p.Pre, r.Op)
		failed := r.Err != "" || r.Panic != ""
		if failed && may && (r.Panic == "" || strings.HasPrefix(r.Op.Kind, "MustGetter")) {
			// a fault reaches this operation: it may fail (a Must getter by panicking); a failed operation
			// contributes no observation to the identity model
			continue
		}
		if !failed && must {
			return mkViolation(prop, "operation-succeeded-despite-fault:"+r.Op.Kind, fmt.Sprintf("%s succeeded although %s", r.Op, why), e, p, out)
		}
		if r.Panic != "" {
			return mkViolation(prop, "operation-panicked:"+r.Op.Kind, fmt.Sprintf("%s panicked: %s", r.Op, r.Panic), e, p, out)
		}
		if r.Err != "" {
			return mkViolation(prop, "unexpected-error:"+r.Op.Kind+":"+errClass(r.Err), fmt.Sprintf("%s failed although no fault reaches it and every symbol exists: %s", r.Op, r.Err), e, p, out)
		}
	}
	groups := [][]*OpResult{out.Results}
	if p.Multi {
		groups = make([][]*OpResult, len(p.Tasks))
		for _, r := range out.Results {
			groups[r.Task] = append(groups[r.Task], r)
		}
	}
	owner := map[int]int{}
	for gi, g := range groups {
		obs := Observe(e.Cfg, g)
		if c, d := CheckIdentity(e.Cfg, obs); c != "" {
			return mkViolation(prop, "identity:"+c, d, e, p, out)
		}
		for _, o := range obs {
			if prev, ok := owner[o.ID]; ok && prev != gi {
				return mkViolation(prop, "identity:instance-shared-between-containers", fmt.Sprintf("instance #%d of service %q was handed out by container %d and by container %d", o.ID, o.Svc, prev+1, gi+1), e, p, out)
			}
			owner[o.ID] = gi
		}
		// $gontainer must be the container the operation was issued on
		for _, r := range g {
			want := 1
			if p.Multi {
				want = r.Task + 1
			}
			if id, ok := foreignContainer(r.Val, want); ok {
				return mkViolation(prop, "identity:gontainer-injection-points-at-another-container", fmt.Sprintf("%s on container %d returned an object graph that injects $gontainer = container %d", r.Op, want, id), e, p, out)
			}
		}
	}
	return nil
}

// foreignContainer finds a container reference in d that is not container `want`.
func foreignContainer(d *Desc, want int) (int, bool) {
	if d == nil {
		return 0, false
	}
	if d.Kind == "container" && d.ID != want {
		return d.ID, true
	}
	for _, c := range d.Deps {
		if id, ok := foreignContainer(c, want); ok {
			return id, true
		}
	}
	for _, c := range []*Desc{d.F1, d.F2, d.F3} {
		if id, ok := foreignContainer(c, want); ok {
			return id, true
		}
	}
	for _, cs := range [][]DescCall{d.Calls, d.Decos} {
		for _, c := range cs {
			for _, a := range c.Args {
				if id, ok := foreignContainer(a, want); ok {
					return id, true
				}
			}
		}
	}
	return 0, false
}

var reQuoted = regexp.MustCompile(`"[^"]*"|\d+`)

func errClass(s string) string {
	s = reQuoted.ReplaceAllString(s, "_")
	if i := strings.LastIndex(s, ": "); i >= 0 && i+2 < len(s) {
		s = s[i+2:]
	}
	if len(s) > 60 {
		s = s[:60]
	}
	return s
}

// CheckC20: 2-8 tasks of reader operations on one container under the seeded scheduler, with
// the race detector active under that schedule.
func CheckC20(e *Entry, src *choice.Src, st *Stats) *Violation {
	p := genReaderPlan(src, e.Cfg, 2, 8, 24, true)
	p.Pre = append(genOverrides(src, e.Cfg), genFaults(src, e.Cfg)...)
	if src.Chance("multi-container", 1, 5) {
		// several containers of the same generated type, constructed and used concurrently
		p.Multi = true
		if len(p.Tasks) > 4 {
			p.Tasks = p.Tasks[:4]
		}
	}
	out := RunPlan(e, p)
	if st != nil {
		st.note(e, p, out)
		if p.Multi {
			st.Probes["runs-with-several-containers-constructed-concurrently"]++
		}
		if len(st.Samples) < 3 {
			st.Samples = append(st.Samples, map[string]any{"config": e.Name, "services": svcSummary(e.Cfg), "plan": p.Tasks, "policy": policyNames[p.Sched.Policy%len(policyNames)], "containers": map[bool]string{true: "one per task", false: "one"}[p.Multi],
				"steps": out.Sched.Steps, "contended_decisions": out.Sched.Contended, "blocks": out.Sched.Blocks})
		}
	}
	return judgeC20(e, p, out)
}

func judgeC20(e *Entry, p *Plan, out *RunOut) *Violation {
	e = effectiveEntry(e, p)
	// (a) data races, reported by the race detector under the simulated schedule
	if out.RaceText != "" {
		return mkViolation("C20", "data-race:"+raceSig(out.RaceText), "the race detector reported under this schedule:\n"+firstReport(out.RaceText), e, p, out)
	}
	// (d) bounded progress
	if out.Sched.Outcome == "stalled" {
		// a task blocked in the Go runtime, in an operation the simulation does not know: not simulated, not judged
		return nil
	}
	if out.Sched.Outcome == "stalled" {
		// a task blocked in the Go runtime, in an operation the simulation does not know: not simulated, not judged
		return nil
	}
	if out.Sched.Outcome != "finished" && out.Sched.Polling > 0 {
		// tasks were still polling channels when the run ended: a select case that only a hand-over between
		// two simulated tasks could serve is not matched by the simulation (sched/run.go) - not judged
		return nil
	}
	if out.Sched.Outcome != "finished" {
		return mkViolation("C20", "no-progress:"+out.Sched.Outcome, fmt.Sprintf("reader operations did not complete: %s after %d steps; blocked tasks %v", out.Sched.Outcome, out.Sched.Steps, out.Sched.Blocked), e, p, out)
	}
	// (b) at most once
	eff := gen.EffectiveScope(e.Cfg)
	ctor := map[string]int{}
	fn := map[string]int{}
	for _, ev := range out.Sched.Events {
		if ev.B != "ok" {
			continue
		}
		key := ev.A
		if p.Multi {
			key = fmt.Sprintf("%s\x00container %d", ev.A, ev.Task+1) // one container per task
		}
		switch ev.Kind {
		case "ctor":
			ctor[key]++
		case "fn":
			fn[key]++
		}
	}
	// under injected faults a service's constructor (or a parameter's function) may have succeeded while
	// the service (the parameter) as a whole failed afterwards - a field, a call, a decorator, a later
	// chunk - and was therefore not cached, any number of times (the runtime resolves all arguments
	// before it reports an error). For a service or parameter with a fault in its closure the callback
	// count is therefore not judged (the identity of the instances handed out still is); without a fault
	// in its closure nothing of it may fail and the bound stays at one.
	for key, n := range ctor {
		name := strings.SplitN(key, "\x00", 2)[0]
		if eff[name] == "shared" && n > 1 {
			if may, _, _ := faultVerdict(e.Cfg, p.Pre, Op{Kind: "Get", Name: name}); may {
				continue
			}
			return mkViolation("C20", "shared-constructed-more-than-once", fmt.Sprintf("shared service %q was successfully constructed %d times", name, n), e, p, out)
		}
	}
	for key, n := range fn {
		name := strings.SplitN(key, "\x00", 2)[0]
		if n > 1 {
			if may, _, _ := faultVerdict(e.Cfg, p.Pre, Op{Kind: "GetParam", Name: name}); may {
				continue
			}
			return mkViolation("C20", "parameter-evaluated-more-than-once", fmt.Sprintf("parameter function %s(%q) was evaluated %d times on one container", "fn", name, n), e, p, out)
		}
	}
	// (c) context isolation and the rest of the identity model; values of parameters must agree
	if v := judgeIdentity("C20", e, p, out); v != nil {
		return v
	}
	seen := map[string]string{}
	for _, r := range out.Results {
		if r.Op.Kind == "GetParam" && r.Val != nil {
			k := r.Op.Name
			if p.Multi {
				k = fmt.Sprintf("%s@%d", k, r.Task)
			}
			if old, ok := seen[k]; ok && old != r.Val.V {
				return mkViolation("C20", "parameter-value-changed", fmt.Sprintf("parameter %q was observed as %s and as %s on one container", r.Op.Name, old, r.Val.V), e, p, out)
			}
			seen[k] = r.Val.V
		}
	}
	return nil
}

var reGenPkg = regexp.MustCompile(`^[ce][0-9]+\.`)

var reFrame = regexp.MustCompile(`(?m)^  ([A-Za-z0-9_./*()\-]+)\(\)$`)

// raceSig names the first frames of the two stacks that are not in the runtime or the simulator.
func raceSig(text string) string {
	var fr []string
	for _, m := range reFrame.FindAllStringSubmatch(firstReport(text), -1) {
		f := m[1]
		if strings.HasPrefix(f, "runtime.") || strings.Contains(f, "verifsim/") || strings.HasPrefix(f, "sync") || strings.HasPrefix(f, "reflect.") {
			continue
		}
		if i := strings.LastIndex(f, "/"); i >= 0 {
			f = f[i+1:]
		}
		f = reGenPkg.ReplaceAllString(f, "gen.")
		dup := false
		for _, x := range fr {
			if x == f {
				dup = true
			}
		}
		if !dup {
			fr = append(fr, f)
		}
		if len(fr) == 2 {
			break
		}
	}
	return strings.Join(fr, "<->")
}

func firstReport(text string) string {
	i := strings.Index(text, "WARNING: DATA RACE")
	if i < 0 {
		return text
	}
	rest := text[i:]
	if j := strings.Index(rest[10:], "=================="); j >= 0 {
		rest = rest[:j+10]
	}
	if len(rest) > 4000 {
		rest = rest[:4000]
	}
	return rest
}

var _ = sched.MaxTasks
