package rsim

import (
	"verifsim/choice"
	"verifsim/gen"
)

// The documented workflow "build -> override the todo placeholders -> use" under the reader workloads:
// a configuration that contains todo services becomes runnable when every placeholder is overridden
// before the tasks start. The overriding definition keeps the placeholder's declared scope; where none
// is declared one is drawn among those that leave the configuration scope-legal (overriding a
// placeholder below a shared service with a contextual definition would be the application's error).

const fxRef = `"` + gen.FxPath + `"`

// effectiveCfg is the configuration the reference models judge: the entry's configuration with the
// placeholders replaced by what the plan's OvSvc operations put there.
func effectiveCfg(cfg *gen.Cfg, pre []Op) *gen.Cfg {
	var ov []Op
	for _, o := range pre {
		if o.Kind == "OvSvc" {
			ov = append(ov, o)
		}
	}
	if len(ov) == 0 {
		return cfg
	}
	c := *cfg
	c.Services = append([]gen.Svc{}, cfg.Services...)
	for _, o := range ov {
		for i := range c.Services {
			if c.Services[i].Name == o.Name {
				c.Services[i] = gen.Svc{Name: o.Name, Ctor: fxRef + ".NewNode", Args: []gen.Arg{{Kind: "str", S: o.Name}, {Kind: "int", I: int64(o.VI)}}, Scope: o.Scope}
			}
		}
	}
	return &c
}

func effectiveEntry(e *Entry, p *Plan) *Entry {
	c := effectiveCfg(e.Cfg, p.Pre)
	if c == e.Cfg {
		return e
	}
	ee := *e
	ee.Cfg = c
	ee.Orig = e.Cfg // violations and replays carry the configuration as generated
	return &ee
}

// genOverrides draws the OvSvc operations for the placeholders of cfg (nil if it has none).
func genOverrides(src *choice.Src, cfg *gen.Cfg) []Op {
	var pre []Op
	marker := 900
	for _, s := range cfg.Services {
		if !s.Todo {
			continue
		}
		marker++
		op := Op{Kind: "OvSvc", Name: s.Name, VI: marker, Scope: s.Scope}
		if s.Scope == "" {
			var legal []string
			for _, sc := range []string{"", "shared", "contextual", "non_shared"} {
				try := append(append([]Op{}, pre...), Op{Kind: "OvSvc", Name: s.Name, VI: marker, Scope: sc})
				if len(gen.ScopeViolations(effectiveCfg(cfg, try))) == 0 {
					legal = append(legal, sc)
				}
			}
			if len(legal) > 0 {
				op.Scope = choice.Pick(src, "ov.scope", legal)
				for _, sc := range legal {
					// half of the time a contextual definition where that is legal: everything above it follows at run time
					if sc == "contextual" && src.Bool("ov.ctx") {
						op.Scope = sc
					}
				}
			}
		}
		pre = append(pre, op)
	}
	return pre
}
