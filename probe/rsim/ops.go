package rsim

import (
	"context"
	"fmt"
	"os"
	"reflect"
	"strings"

	"github.com/gontainer/gontainer-helpers/v3/container"
	"verifprobe/fx"
	"verifsim/sched"
)

// Op is one client operation of a history.
type Op struct {
	Kind string `json:"k"` // New Get GetCtx Tagged TaggedCtx Getter GetterCtx MustGetter MustGetterCtx GetParam OvParam OvSvc SetEnv UnsetEnv Arm Cancel
	Name string `json:"n,omitempty"`
	Ctx  int    `json:"c,omitempty"`
	// OvParam: VKind value|param|provider ; V / VI the value ; OvSvc: VI = marker
	VKind string `json:"vk,omitempty"`
	V     string `json:"v,omitempty"`
	VI    int    `json:"vi,omitempty"`
	Nth   int    `json:"nth,omitempty"`
	// OvSvc: scope of the overriding definition ("" default, shared, contextual, non_shared)
	Scope string `json:"sc,omitempty"`
}

func (o Op) String() string {
	switch o.Kind {
	case "GetCtx", "TaggedCtx", "GetterCtx", "MustGetterCtx":
		return fmt.Sprintf("%s(ctx%d,%s)", o.Kind, o.Ctx, o.Name)
	case "OvParam":
		return fmt.Sprintf("OvParam(%s,%s:%s/%d)", o.Name, o.VKind, o.V, o.VI)
	case "OvSvc":
		if o.Scope != "" {
			return fmt.Sprintf("OvSvc(%s,#%d,%s)", o.Name, o.VI, o.Scope)
		}
		return fmt.Sprintf("OvSvc(%s,#%d)", o.Name, o.VI)
	case "SetEnv":
		return fmt.Sprintf("SetEnv(%s=%s)", o.Name, o.V)
	case "Arm":
		return fmt.Sprintf("Arm(%s,%d)", o.Name, o.Nth)
	case "Cancel":
		return fmt.Sprintf("Cancel(ctx%d)", o.Ctx)
	}
	return fmt.Sprintf("%s(%s)", o.Kind, o.Name)
}

// Desc is the observable shape of a result.
type Desc struct {
	Kind   string     `json:"k"` // node val slice scalar nil other
	ID     int        `json:"id,omitempty"`
	Svc    string     `json:"svc,omitempty"`
	Serial int64      `json:"serial,omitempty"`
	Deps   []*Desc    `json:"deps,omitempty"`
	F1     *Desc      `json:"f1,omitempty"`
	F2     *Desc      `json:"f2,omitempty"`
	F3     *Desc      `json:"f3,omitempty"`
	Calls  []DescCall `json:"calls,omitempty"`
	Decos  []DescCall `json:"decos,omitempty"`
	V      string     `json:"v,omitempty"`
}

type DescCall struct {
	M    string  `json:"m"`
	Args []*Desc `json:"a,omitempty"`
}

// OpResult is what one operation returned, with its invoke/return stamps.
type OpResult struct {
	Task   int    `json:"task"`
	Index  int    `json:"i"`
	Op     Op     `json:"op"`
	Invoke int64  `json:"inv"`
	Return int64  `json:"ret"`
	Err    string `json:"err,omitempty"`
	Panic  string `json:"panic,omitempty"`
	Events int    `json:"events,omitempty"` // fixture events (constructions, calls, functions) recorded during the operation
	raw    any
	Val    *Desc `json:"val,omitempty"`
}

// Session is one container plus the contexts attached to it.
type Session struct {
	Entry   *Entry
	C       Container
	ctxs    []context.Context
	cancels []context.CancelFunc
	nctx    int
}

func NewSession(e *Entry, nctx int) *Session {
	return &Session{Entry: e, nctx: nctx}
}

// Construct builds the container and attaches the contexts.
func (s *Session) Construct() {
	s.C = s.Entry.New()
	s.ctxs, s.cancels = nil, nil
	for i := 0; i < s.nctx; i++ {
		ctx, cancel := context.WithCancel(context.Background())
		ctx = container.ContextWithContainer(ctx, s.C)
		s.ctxs = append(s.ctxs, ctx)
		s.cancels = append(s.cancels, cancel)
	}
}

// Close cancels the contexts (after the controlled phase).
func (s *Session) Close() {
	for _, c := range s.cancels {
		c()
	}
}

func callMethod(c Container, name string, args ...any) (res any, err error, ok bool) {
	m := reflect.ValueOf(c).MethodByName(name)
	if !m.IsValid() {
		return nil, nil, false
	}
	in := make([]reflect.Value, len(args))
	for i, a := range args {
		in[i] = reflect.ValueOf(a)
	}
	out := m.Call(in)
	if len(out) > 0 {
		res = out[0].Interface()
	}
	if len(out) > 1 && !out[1].IsNil() {
		err = out[1].Interface().(error)
	}
	return res, err, true
}

// Exec performs one operation; the raw result is kept for later description.
func (s *Session) Exec(task, idx int, op Op) (r OpResult) {
	r = OpResult{Task: task, Index: idx, Op: op}
	r.Invoke = sched.Now()
	ev0 := sched.EventCount()
	defer func() {
		if p := recover(); p != nil {
			r.Panic = fmt.Sprint(p)
		}
		r.Events = sched.EventCount() - ev0
		r.Return = sched.Now()
	}()
	var (
		v   any
		err error
	)
	ctx := func() context.Context { return s.ctxs[op.Ctx%len(s.ctxs)] }
	switch op.Kind {
	case "New":
		s.Construct()
	case "Get":
		v, err = s.C.Get(op.Name)
	case "GetCtx":
		v, err = s.C.GetInContext(ctx(), op.Name)
	case "Tagged":
		v, err = s.C.GetTaggedBy(op.Name)
	case "TaggedCtx":
		v, err = s.C.GetTaggedByInContext(ctx(), op.Name)
	case "Getter":
		var ok bool
		v, err, ok = callMethod(s.C, op.Name)
		if !ok {
			err = fmt.Errorf("probe: no method %s", op.Name)
		}
	case "GetterCtx":
		var ok bool
		v, err, ok = callMethod(s.C, op.Name+"InContext", ctx())
		if !ok {
			err = fmt.Errorf("probe: no method %sInContext", op.Name)
		}
	case "MustGetter":
		var ok bool
		v, err, ok = callMethod(s.C, "Must"+op.Name)
		if !ok {
			err = fmt.Errorf("probe: no method Must%s", op.Name)
		}
	case "MustGetterCtx":
		var ok bool
		v, err, ok = callMethod(s.C, "Must"+op.Name+"InContext", ctx())
		if !ok {
			err = fmt.Errorf("probe: no method Must%sInContext", op.Name)
		}
	case "GetParam":
		v, err = s.C.GetParam(op.Name)
	case "OvParam":
		switch op.VKind {
		case "value":
			if op.V != "" {
				s.C.OverrideParam(op.Name, container.NewDependencyValue(op.V))
			} else {
				s.C.OverrideParam(op.Name, container.NewDependencyValue(op.VI))
			}
		case "param":
			s.C.OverrideParam(op.Name, container.NewDependencyParam(op.V))
		case "provider":
			val := op.VI
			s.C.OverrideParam(op.Name, container.NewDependencyProvider(func() (any, error) {
				sched.Record("provider", op.Name, "", int64(val))
				return val, nil
			}))
		}
	case "OvSvc":
		sv := container.NewService()
		sv.SetConstructor(fx.NewNode, container.NewDependencyValue(op.Name), container.NewDependencyValue(op.VI))
		switch op.Scope {
		case "shared":
			sv.SetScopeShared()
		case "contextual":
			sv.SetScopeContextual()
		case "non_shared":
			sv.SetScopeNonShared()
		}
		s.C.OverrideService(op.Name, sv)
	case "SetEnv":
		os.Setenv(op.Name, op.V)
	case "UnsetEnv":
		os.Unsetenv(op.Name)
	case "Arm":
		fx.Arm(op.Name, op.Nth)
	case "Cancel":
		s.cancels[op.Ctx%len(s.cancels)]()
	}
	if err != nil {
		r.Err = err.Error()
	}
	r.raw = v
	return r
}

// Registry hands out small integers for object identities (pointer identity of *fx.Node).
type Registry struct {
	ids        map[*fx.Node]int
	keep       []*fx.Node
	containers []Container // the containers of the run, by session index
}

func NewRegistry() *Registry { return &Registry{ids: map[*fx.Node]int{}} }

func (g *Registry) id(n *fx.Node) int {
	if id, ok := g.ids[n]; ok {
		return id
	}
	id := len(g.ids) + 1
	g.ids[n] = id
	g.keep = append(g.keep, n)
	return id
}

func scalar(v any) *Desc {
	return &Desc{Kind: "scalar", V: fmt.Sprintf("%T(%v)", v, v)}
}

// Describe turns a result into its observable shape. Called only after the scheduled phase,
// from the main goroutine (which has a happens-before edge from every finished task).
func (g *Registry) Describe(v any, depth int) *Desc {
	if depth > 12 {
		return &Desc{Kind: "other", V: "depth"}
	}
	switch x := v.(type) {
	case nil:
		return &Desc{Kind: "nil"}
	case *fx.Node:
		if x == nil {
			return &Desc{Kind: "nil", V: "*fx.Node"}
		}
		d := &Desc{Kind: "node", ID: g.id(x), Svc: x.Name, Serial: x.Serial}
		g.fill(d, x, depth)
		return d
	case fx.Node:
		d := &Desc{Kind: "val", Svc: x.Name}
		g.fill(d, &x, depth)
		return d
	case []any:
		d := &Desc{Kind: "slice"}
		for _, e := range x {
			d.Deps = append(d.Deps, g.Describe(e, depth+1))
		}
		return d
	case string, int, int64, bool, float64, uint64:
		return scalar(x)
	case fx.Opt, *fx.Opt:
		return &Desc{Kind: "other", V: fmt.Sprintf("%T", x)}
	}
	if c, ok := v.(Container); ok && c != nil {
		for i, k := range g.containers {
			if k == c {
				return &Desc{Kind: "container", ID: i + 1}
			}
		}
		return &Desc{Kind: "container", ID: -1}
	}
	t := fmt.Sprintf("%T", v)
	if strings.Contains(t, "ontainer") {
		return &Desc{Kind: "other", V: "container"}
	}
	return &Desc{Kind: "other", V: t}
}

func (g *Registry) fill(d *Desc, x *fx.Node, depth int) {
	for _, dep := range x.Deps {
		d.Deps = append(d.Deps, g.Describe(dep, depth+1))
	}
	if x.F1 != nil {
		d.F1 = g.Describe(x.F1, depth+1)
	}
	if x.F2 != nil {
		d.F2 = g.Describe(x.F2, depth+1)
	}
	if x.F3() != nil {
		d.F3 = g.Describe(x.F3(), depth+1)
	}
	for _, c := range x.Calls {
		dc := DescCall{M: c.Method}
		for _, a := range c.Args {
			dc.Args = append(dc.Args, g.Describe(a, depth+1))
		}
		d.Calls = append(d.Calls, dc)
	}
	for _, c := range x.Decos {
		dc := DescCall{M: c.Tag + "@" + c.ServiceID}
		for _, a := range c.Args {
			dc.Args = append(dc.Args, g.Describe(a, depth+1))
		}
		d.Decos = append(d.Decos, dc)
	}
}
