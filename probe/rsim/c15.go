package rsim

import (
	"fmt"
	"os"
	"strings"

	"verifprobe/fx"
	"verifsim/choice"
	"verifsim/gen"
	"verifsim/sched"
)

func init() {
	checks["C15"] = CheckC15
}

var envVals = []string{"8080", "17", "3", "localhost", "x y", ""}

// genHistory15 draws a sequential history: environment/fault set-up, New, then reads and overrides.
func genHistory15(src *choice.Src, cfg *gen.Cfg) []Op {
	var ops []Op
	m := newModel15(cfg) // only used for its dependency view (cycle avoidance)
	m.construct()
	envOp := func() Op {
		k := choice.Pick(src, "envk", envKeys15)
		if src.Chance("unset", 1, 3) {
			return Op{Kind: "UnsetEnv", Name: k}
		}
		return Op{Kind: "SetEnv", Name: k, V: choice.Pick(src, "envv", envVals)}
	}
	npre := src.Range("npre", 0, 2)
	for i := 0; i < npre; i++ {
		ops = append(ops, envOp())
	}
	ops = append(ops, Op{Kind: "New"})
	var fnArgs, ctorE []string
	for _, p := range cfg.Params {
		for _, c := range p.V.Chunks {
			if c.Kind == "fn" {
				fnArgs = append(fnArgs, c.Def)
			}
		}
	}
	for _, s := range cfg.Services {
		if strings.HasSuffix(s.Ctor, "NewNodeE") {
			ctorE = append(ctorE, s.Name)
		}
	}
	n := src.Range("nops", 2, 11)
	marker := 100
	for i := 0; i < n; i++ {
		kinds := []string{}
		if len(cfg.Params) > 0 {
			kinds = append(kinds, "GetParam", "GetParam", "GetParam", "OvParam", "OvParam")
		}
		if len(cfg.Services) > 0 {
			kinds = append(kinds, "Get", "Get", "Get", "OvSvc", "Getter")
		}
		kinds = append(kinds, "Env")
		if i > 1 && src.Chance("renew", 1, 12) {
			// a second container built from the same generated constructor: nothing of the first one
			// (overrides, caches) may carry over
			ops = append(ops, Op{Kind: "New"})
			m.construct()
			continue
		}
		if len(fnArgs)+len(ctorE) > 0 {
			kinds = append(kinds, "Arm")
		}
		switch choice.Pick(src, "opkind", kinds) {
		case "GetParam":
			ops = append(ops, Op{Kind: "GetParam", Name: cfg.Params[src.Draw("p", len(cfg.Params))].Name})
		case "Get":
			ops = append(ops, Op{Kind: "Get", Name: cfg.Services[src.Draw("s", len(cfg.Services))].Name})
		case "Getter":
			var gs []gen.Svc
			for _, s := range cfg.Services {
				if s.Getter != "" && !s.Todo {
					gs = append(gs, s)
				}
			}
			if len(gs) > 0 {
				ops = append(ops, Op{Kind: "Getter", Name: gs[src.Draw("g", len(gs))].Name})
			}
		case "OvParam":
			p := cfg.Params[src.Draw("p", len(cfg.Params))].Name
			marker++
			switch src.Draw("ovkind", 4) {
			case 0:
				ops = append(ops, Op{Kind: "OvParam", Name: p, VKind: "value", VI: marker})
			case 1:
				ops = append(ops, Op{Kind: "OvParam", Name: p, VKind: "value", V: fmt.Sprintf("ov%d", marker)})
			case 2:
				ops = append(ops, Op{Kind: "OvParam", Name: p, VKind: "provider", VI: marker})
			case 3:
				q := cfg.Params[src.Draw("q", len(cfg.Params))].Name
				if m.paramCycleIfRef(p, q) {
					ops = append(ops, Op{Kind: "OvParam", Name: p, VKind: "value", VI: marker})
				} else {
					ops = append(ops, Op{Kind: "OvParam", Name: p, VKind: "param", V: q})
					m.pdefs[p] = pdef{kind: "param", ref: q}
				}
			}
		case "OvSvc":
			marker++
			ops = append(ops, Op{Kind: "OvSvc", Name: cfg.Services[src.Draw("s", len(cfg.Services))].Name, VI: marker,
				Scope: choice.Pick(src, "ovscope", []string{"", "", "", "contextual", "contextual", "non_shared", "shared"})})
		case "Env":
			ops = append(ops, envOp())
		case "Arm":
			all := []string{}
			for _, a := range fnArgs {
				all = append(all, "fn:"+a)
			}
			for _, a := range ctorE {
				all = append(all, "ctor:"+a)
			}
			ops = append(ops, Op{Kind: "Arm", Name: choice.Pick(src, "arm", all), Nth: src.Range("nth", 1, 2)})
		}
	}
	return ops
}

var envKeys15 = []string{"VSIM_E0", "VSIM_E1", "VSIM_E2"}

// getter ops carry the service name in Name; the method is looked up in the configuration
func getterName(cfg *gen.Cfg, svc string) string {
	if s := cfg.Svc(svc); s != nil {
		return s.Getter
	}
	return ""
}

// RunHistory15 executes a sequential history (no scheduler: one client) and returns the results.
func RunHistory15(e *Entry, ops []Op) ([]*OpResult, [][]sched.Event, *Registry) {
	fx.Disarm()
	sched.DrainEvents()
	os.Setenv("VSIM_E0", "8080")
	os.Setenv("VSIM_E1", "17")
	os.Setenv("VSIM_E2", "3")
	sess := NewSession(e, 1)
	reg := NewRegistry()
	var res []*OpResult
	var evs [][]sched.Event
	for i, op := range ops {
		x := op
		if op.Kind == "Getter" {
			x.Name = getterName(e.Cfg, op.Name)
		}
		r := sess.Exec(0, i, x)
		r.Op = op
		if r.Err == "" && r.Panic == "" {
			r.Val = reg.Describe(r.raw, 0)
		}
		res = append(res, &r)
		evs = append(evs, sched.DrainEvents())
	}
	if sess.C != nil {
		sess.Close()
	}
	return res, evs, reg
}

func cmpNode(exp *mnode, act *Desc, ids map[int]int, rev map[int]int, path string) string {
	if act == nil || act.Kind != "node" {
		return fmt.Sprintf("%s: expected an instance of service %q, got %v", path, exp.svc, descString(act))
	}
	if act.Svc != exp.svc {
		return fmt.Sprintf("%s: expected an instance of service %q, got one of %q", path, exp.svc, act.Svc)
	}
	if a, ok := ids[exp.id]; ok && a != act.ID {
		return fmt.Sprintf("%s: service %q: expected the instance seen before (#%d), got another one (#%d)", path, exp.svc, a, act.ID)
	}
	if m, ok := rev[act.ID]; ok && m != exp.id {
		return fmt.Sprintf("%s: service %q: expected a new instance, got the one seen before (#%d)", path, exp.svc, act.ID)
	}
	ids[exp.id], rev[act.ID] = act.ID, exp.id
	if len(act.Deps) != len(exp.deps) {
		return fmt.Sprintf("%s: service %q: expected %d dependencies, got %d", path, exp.svc, len(exp.deps), len(act.Deps))
	}
	for i, d := range exp.deps {
		if d.tainted {
			continue
		}
		p := fmt.Sprintf("%s/dep%d", path, i)
		if d.node != nil {
			if s := cmpNode(d.node, act.Deps[i], ids, rev, p); s != "" {
				return s
			}
			continue
		}
		if act.Deps[i] == nil || act.Deps[i].Kind != "scalar" || act.Deps[i].V != d.scalar {
			return fmt.Sprintf("%s: expected %s, got %s", p, d.scalar, descString(act.Deps[i]))
		}
	}
	return ""
}

func descString(d *Desc) string {
	if d == nil {
		return "nothing"
	}
	switch d.Kind {
	case "scalar":
		return d.V
	case "node":
		return fmt.Sprintf("instance #%d of %q", d.ID, d.Svc)
	}
	return d.Kind + " " + d.V
}

// judge15 steps the reference model through the history and compares operation by operation.
func judge15(e *Entry, ops []Op, res []*OpResult, evs [][]sched.Event) (sig, detail string, stats map[string]int) {
	stats = map[string]int{}
	m := newModel15(e.Cfg)
	ids, rev := map[int]int{}, map[int]int{}
	for i, op := range ops {
		r := res[i]
		at := fmt.Sprintf("op %d %s", i, op)
		if r.Panic != "" {
			return "operation-panicked:" + op.Kind, at + " panicked: " + r.Panic, stats
		}
		switch op.Kind {
		case "SetEnv":
			m.env[op.Name] = op.V
		case "UnsetEnv":
			delete(m.env, op.Name)
		case "Arm":
			m.armed[op.Name] = append(m.armed[op.Name], op.Nth)
			stats["armed-failures"]++
		case "New":
			m.construct()
			for _, ev := range evs[i] {
				if ev.Kind == "fn" || ev.Kind == "provider" {
					return "parameter-evaluated-at-construction", fmt.Sprintf("%s: parameter function %q ran while the container was being constructed; parameters must be evaluated on first use", at, ev.A), stats
				}
			}
		case "OvParam":
			switch op.VKind {
			case "value":
				if op.V != "" {
					m.overrideParam(op.Name, pdef{kind: "value", v: op.V})
				} else {
					m.overrideParam(op.Name, pdef{kind: "value", v: op.VI})
				}
			case "param":
				m.overrideParam(op.Name, pdef{kind: "param", ref: op.V})
			case "provider":
				m.overrideParam(op.Name, pdef{kind: "provider", v: op.VI})
			}
			stats["overrides"]++
		case "OvSvc":
			m.overrideService(op.Name, op.VI, op.Scope)
			stats["overrides"]++
		case "GetParam":
			if m.lost {
				stats["not-judged-(model-lost-track-after-a-scoped-override)"]++
				continue
			}
			v, taint, err := m.param(op.Name)
			if taint {
				stats["not-judged-(constructed-before-an-override)"]++
				m.armedUnknown = true
				continue
			}
			if err != nil {
				if r.Err == "" {
					cls := "error-expected"
					if err.todo {
						cls = "todo-parameter-returned-a-value"
					}
					return cls, fmt.Sprintf("%s: expected an error (%s%s), got %s", at, err.msg, err.text, descString(r.Val)), stats
				}
				if err.todo {
					stats["todo-errors-checked"]++
					if err.msg != "parameter todo" && lineEndsWith(r.Err, "parameter todo") && !strings.HasSuffix(err.msg, "parameter todo") {
						return "todo-parameter-wrong-message", fmt.Sprintf("%s: the given message %q must be reported, not the default: %s", at, err.msg, r.Err), stats
					}
					if !lineEndsWith(r.Err, err.msg) {
						return "todo-parameter-wrong-message", fmt.Sprintf("%s: the error must end with the documented message %q, got: %s", at, err.msg, r.Err), stats
					}
				}
				continue
			}
			if r.Err != "" {
				return "unexpected-error:GetParam:" + errClass(r.Err), fmt.Sprintf("%s: expected %T(%v), got error: %s", at, v, v, r.Err), stats
			}
			exp := fmt.Sprintf("%T(%v)", v, v)
			if r.Val == nil || r.Val.Kind != "scalar" || r.Val.V != exp {
				cls := "wrong-parameter-value"
				if _, ov := m.pdefs[op.Name]; ov && m.pdefs[op.Name].kind != "orig" {
					cls = "override-not-received:param"
				}
				return cls, fmt.Sprintf("%s: expected %s, got %s", at, exp, descString(r.Val)), stats
			}
			stats["values-checked"]++
		case "Get", "Getter":
			if m.lost {
				stats["not-judged-(model-lost-track-after-a-scoped-override)"]++
				continue
			}
			m.beginTree()
			n, taint, err := m.service(op.Name)
			if taint {
				stats["not-judged-(constructed-before-an-override)"]++
				m.armedUnknown = true
				continue
			}
			if err != nil {
				if r.Err == "" {
					cls := "error-expected"
					if err.todo {
						cls = "todo-service-returned-a-value"
					}
					return cls, fmt.Sprintf("%s: expected an error (%s%s), got %s", at, err.msg, err.text, descString(r.Val)), stats
				}
				if err.todo && m.cfg.Svc(op.Name) != nil && m.cfg.Svc(op.Name).Todo && m.sdefs[op.Name].orig {
					stats["todo-errors-checked"]++
					if !strings.Contains(r.Err, "service todo") {
						return "todo-service-wrong-message", fmt.Sprintf("%s: the error must say %q, got: %s", at, "service todo", r.Err), stats
					}
				}
				continue
			}
			if r.Err != "" {
				return "unexpected-error:" + op.Kind + ":" + errClass(r.Err), fmt.Sprintf("%s: expected an instance of %q, got error: %s", at, op.Name, r.Err), stats
			}
			if s := cmpNode(n, r.Val, ids, rev, "result"); s != "" {
				cls := "wrong-service-result"
				if strings.Contains(s, "expected int(1") || strings.Contains(s, "expected string(ov") {
					cls = "override-not-received:service-dependency"
				}
				return cls, at + ": " + s, stats
			}
			stats["values-checked"]++
		}
	}
	return "", "", stats
}

// CheckC15 draws a history, runs it, and compares it with the reference model.
func CheckC15(e *Entry, src *choice.Src, st *Stats) *Violation {
	ops := genHistory15(src, e.Cfg)
	return runC15(e, ops, st)
}

// LastOps15 is the history the last runC15 call executed.
var LastOps15 []Op

func runC15(e *Entry, ops []Op, st *Stats) *Violation {
	LastOps15 = ops
	res, evs, _ := RunHistory15(e, ops)
	LastRunDigest = shortHash(historyDigestString(res))
	sig, detail, stats := judge15(e, ops, res, evs)
	if st != nil {
		st.Runs++
		st.PerConfig[e.Name]++
		for _, o := range ops {
			st.OpKinds[o.Kind]++
			st.Ops++
		}
		for k, v := range stats {
			st.Probes[k] += v
		}
		if stats["armed-failures"] > 0 {
			st.Faults["armed-user-function-or-constructor-failure"] += stats["armed-failures"]
		}
		var hs []string
		for _, o := range ops {
			hs = append(hs, o.String())
		}
		h := strings.Join(hs, " ; ")
		st.Distinct[shortHash(e.Name+"|"+h)]++
		st.Outcomes["finished"]++
		if len(st.Samples) < 3 {
			st.Samples = append(st.Samples, map[string]any{"config": e.Name, "params": paramSummary(e.Cfg), "services": svcSummary(e.Cfg), "history": hs})
		}
	}
	if sig == "" {
		return nil
	}
	v := &Violation{Property: "C15", Sig: sig, Detail: detail + "\nhistory:\n" + historyString(res), Config: e.Name, Cfg: e.Cfg, Plan: &Plan{NCtx: 1, Tasks: [][]Op{ops}}, Engine: 2}
	return v
}

func paramSummary(cfg *gen.Cfg) []string {
	var out []string
	for _, p := range cfg.Params {
		t := p.V.Text()
		if p.V.Kind == "int" {
			t = fmt.Sprint(p.V.I)
		}
		out = append(out, p.Name+" = "+t)
	}
	return out
}

// enumAlphabet15 is the operation alphabet of the exhaustive C15 family (configuration "cenum").
var enumAlphabet15 = []Op{
	{Kind: "GetParam", Name: "p1"}, {Kind: "GetParam", Name: "p2"}, {Kind: "GetParam", Name: "p3"}, {Kind: "GetParam", Name: "p4"}, {Kind: "GetParam", Name: "p5"},
	{Kind: "Get", Name: "s1"}, {Kind: "Get", Name: "s2"}, {Kind: "Get", Name: "s3"},
	{Kind: "OvParam", Name: "p1", VKind: "value", V: "real"}, {Kind: "OvParam", Name: "p1", VKind: "param", V: "p3"},
	{Kind: "OvParam", Name: "p3", VKind: "provider", VI: 42}, {Kind: "OvSvc", Name: "s1", VI: 500},
	{Kind: "OvSvc", Name: "s1", VI: 600, Scope: "contextual"},
}

// EnumCount15 is the number of histories of length 1..4 over the alphabet.
func EnumCount15() int {
	n, k := 0, 1
	for l := 1; l <= 4; l++ {
		k *= len(enumAlphabet15)
		n += k
	}
	return n
}

// enumHistory15 maps an index to its history (all of length 1, then 2, ...).
func enumHistory15(idx int) []Op {
	k := len(enumAlphabet15)
	l, block := 1, k
	for idx >= block {
		idx -= block
		l++
		block *= k
	}
	ops := []Op{{Kind: "New"}}
	for i := 0; i < l; i++ {
		ops = append(ops, enumAlphabet15[idx%k])
		idx /= k
	}
	return ops
}

// lineEndsWith: the (possibly multi-line, prefixed) error text has a line that ends with msg.
func lineEndsWith(text, msg string) bool {
	for _, l := range strings.Split(text, "\n") {
		if strings.HasSuffix(strings.TrimRight(l, " \t\r"), msg) {
			return true
		}
	}
	return false
}
