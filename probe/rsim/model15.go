package rsim

import (
	"fmt"
	"strconv"
	"strings"

	"verifsim/gen"
)

// The todo / override / laziness reference model of C15, written from docs/META.md,
// docs/SERVICES.md, docs/PARAMETERS.md and the runtime's README (parameters are cached once
// evaluated; an override replaces the definition and drops that entry's cache only; errors
// are not cached). All services of the C15 workload are declared without a scope; an overriding
// definition may carry one. The default scope is determined at run time (runtime README, "Scopes"):
// contextual if the service has a direct or indirect contextual dependency under the definitions in
// force, shared otherwise; a contextual instance lives for one invocation of Get, a non_shared one
// is created for every injection.

type mval struct {
	scalar  string // fmt "%T(%v)" of a scalar
	node    *mnode
	tainted bool // depends on an entity that was overridden after it had been constructed: not judged
}

type mnode struct {
	id   int
	svc  string
	deps []mval
}

type merr struct {
	todo bool   // a documented todo error
	msg  string // required substring when todo
	text string
}

type pdef struct {
	kind string // orig value param provider
	arg  gen.Arg
	v    any
	ref  string
}

type sdef struct {
	orig   bool
	marker int
	scope  string // overriding definitions only: "", shared, contextual, non_shared
}

type cachedP struct {
	v       any
	tainted bool
}

type cachedS struct {
	n       *mnode
	tainted bool
}

type model15 struct {
	cfg     *gen.Cfg
	up      bool
	pdefs   map[string]pdef
	pcache  map[string]cachedP
	sdefs   map[string]sdef
	scache  map[string]cachedS
	env     map[string]string
	armed   map[string][]int
	nextID  int
	fnEvals map[string]int
	tree    map[string]cachedS // contextual instances of the Get invocation in progress
	// armedUnknown: an operation was not judged (its result depended on an entity constructed before an
	// override), so the model does not know which user callbacks it invoked and how far the countdowns of the
	// armed failures have run: from then on nothing that hangs on an armed callback is judged
	armedUnknown bool
	// lost: a service that was cached as shared, and whose result is no longer judged because something below
	// it was overridden, has meanwhile become contextual or non_shared through that override: the real
	// container re-creates it (evaluating parameters, invoking callbacks) where the model only has the stale
	// entry. The model has lost track of what is cached; nothing is judged until the next New.
	lost bool
}

func (m *model15) hasArmed(name string) bool { return len(m.armed[name]) > 0 }

// beginTree starts a top-level Get: contextual instances are per invocation.
func (m *model15) beginTree() { m.tree = map[string]cachedS{} }

// effScope is the scope in force for a service under the current definitions.
func (m *model15) effScope(name string, seen map[string]bool) string {
	d, ok := m.sdefs[name]
	if !ok || seen[name] {
		return "shared"
	}
	seen[name] = true
	if !d.orig {
		if d.scope != "" {
			return d.scope
		}
		return "shared" // the overriding definitions of this workload have no service dependencies
	}
	s := m.cfg.Svc(name)
	if s == nil || s.Todo {
		return "shared"
	}
	svcs, _, _ := gen.ArgRefs(s.Args)
	for _, dep := range svcs {
		if m.transitivelyContextual(dep, seen) {
			return "contextual"
		}
	}
	return "shared"
}

// transitivelyContextual: the service is contextual or reaches a contextual one (a non_shared or shared
// link in between does not stop the walk: "direct or indirect contextual dependency").
func (m *model15) transitivelyContextual(name string, seen map[string]bool) bool {
	d, ok := m.sdefs[name]
	if !ok {
		return false
	}
	if !d.orig {
		return d.scope == "contextual"
	}
	if seen["t:"+name] {
		return false
	}
	seen["t:"+name] = true
	s := m.cfg.Svc(name)
	if s == nil || s.Todo {
		return false
	}
	svcs, _, _ := gen.ArgRefs(s.Args)
	for _, dep := range svcs {
		if m.transitivelyContextual(dep, seen) {
			return true
		}
	}
	return false
}

func newModel15(cfg *gen.Cfg) *model15 {
	m := &model15{cfg: cfg, env: map[string]string{"VSIM_E0": "8080", "VSIM_E1": "17", "VSIM_E2": "3"}, armed: map[string][]int{}, fnEvals: map[string]int{}}
	return m
}

func (m *model15) construct() {
	m.up = true
	m.lost = false
	m.pdefs, m.pcache, m.sdefs, m.scache = map[string]pdef{}, map[string]cachedP{}, map[string]sdef{}, map[string]cachedS{}
	for _, p := range m.cfg.Params {
		m.pdefs[p.Name] = pdef{kind: "orig", arg: p.V}
	}
	for _, s := range m.cfg.Services {
		m.sdefs[s.Name] = sdef{orig: true}
	}
}

// fails mirrors fx.shouldFail: the armed entries for name are visited in the order they were
// armed; the first one whose countdown reaches zero makes this call fail (later ones are not
// touched by this call).
func (m *model15) fails(name string) bool {
	l := m.armed[name]
	for i := range l {
		if l[i] > 0 {
			l[i]--
			if l[i] == 0 {
				return true
			}
		}
	}
	return false
}

func castToString(v any) string {
	switch x := v.(type) {
	case string:
		return x
	case int:
		return strconv.Itoa(x)
	}
	return fmt.Sprint(v)
}

func (m *model15) chunk(c gen.Chunk) (any, bool, *merr) {
	switch c.Kind {
	case "lit":
		return c.S, false, nil
	case "pct":
		return "%", false, nil
	case "ref":
		return m.param(c.S)
	case "env":
		if v, ok := m.env[c.S]; ok {
			return v, false, nil
		}
		if c.HasDef {
			return c.Def, false, nil
		}
		return nil, false, &merr{text: "env var missing"}
	case "envInt":
		if v, ok := m.env[c.S]; ok {
			n, err := strconv.Atoi(v)
			if err != nil {
				return nil, false, &merr{text: "cannot cast env"}
			}
			return n, false, nil
		}
		if c.HasDef {
			return c.DefInt, false, nil
		}
		return nil, false, &merr{text: "env var missing"}
	case "todo":
		msg := "parameter todo"
		if c.HasDef {
			msg = c.Def
		}
		return nil, false, &merr{todo: true, msg: msg}
	case "fn":
		m.fnEvals[c.Def]++
		if m.armedUnknown && m.hasArmed("fn:"+c.Def) {
			return "fn(" + c.Def + ")", true, nil // not judged
		}
		if m.fails("fn:" + c.Def) {
			return nil, false, &merr{text: "injected"}
		}
		return "fn(" + c.Def + ")", false, nil
	}
	return nil, false, &merr{text: "unknown chunk"}
}

// arg evaluates a parameter-like argument (literal or pattern).
func (m *model15) scalarArg(a gen.Arg) (any, bool, *merr) {
	switch a.Kind {
	case "int":
		return int(a.I), false, nil
	case "str":
		return a.S, false, nil
	case "pattern":
		// adjacent literals form one token
		var cs []gen.Chunk
		for _, c := range a.Chunks {
			if c.Kind == "lit" && len(cs) > 0 && cs[len(cs)-1].Kind == "lit" {
				cs[len(cs)-1].S += c.S
				continue
			}
			if c.Kind == "lit" && c.S == "" {
				continue
			}
			cs = append(cs, c)
		}
		if len(cs) == 0 {
			return "", false, nil
		}
		if len(cs) == 1 {
			return m.chunk(cs[0])
		}
		out := ""
		taint := false
		for _, c := range cs {
			v, t, err := m.chunk(c)
			if err != nil {
				return nil, false, err
			}
			taint = taint || t
			out += castToString(v)
		}
		return out, taint, nil
	}
	return nil, false, &merr{text: "unsupported arg kind " + a.Kind}
}

func (m *model15) param(name string) (any, bool, *merr) {
	d, ok := m.pdefs[name]
	if !ok {
		return nil, false, &merr{text: "param does not exist"}
	}
	if c, ok := m.pcache[name]; ok {
		return c.v, c.tainted, nil
	}
	var (
		v     any
		taint bool
		err   *merr
	)
	switch d.kind {
	case "orig":
		v, taint, err = m.scalarArg(d.arg)
	case "value":
		v = d.v
	case "param":
		v, taint, err = m.param(d.ref)
	case "provider":
		v = d.v
	}
	if err != nil {
		return nil, false, err
	}
	m.pcache[name] = cachedP{v, taint}
	return v, taint, nil
}

func (m *model15) service(name string) (*mnode, bool, *merr) {
	d, ok := m.sdefs[name]
	if !ok {
		return nil, false, &merr{text: "service does not exist"}
	}
	if c, ok := m.scache[name]; ok {
		if c.tainted && m.effScope(name, map[string]bool{}) != "shared" {
			m.lost, m.armedUnknown = true, true
		}
		return c.n, c.tainted, nil
	}
	eff := m.effScope(name, map[string]bool{})
	if eff == "contextual" {
		if c, ok := m.tree[name]; ok {
			return c.n, c.tainted, nil
		}
	}
	s := m.cfg.Svc(name)
	n := &mnode{svc: name}
	taint := false
	if !d.orig {
		n.deps = []mval{{scalar: fmt.Sprintf("%T(%v)", d.marker, d.marker)}}
	} else {
		if s.Todo {
			return nil, false, &merr{todo: true, msg: "service todo"}
		}
		var firstErr *merr
		// the runtime resolves every argument (caching what it resolves) before it reports the errors
		args := s.Args
		if s.Ctor != "" && len(args) > 0 {
			args = args[1:] // the first argument is the service's own name
		}
		for _, a := range args {
			switch a.Kind {
			case "svc":
				dn, t, err := m.service(a.S)
				if err != nil {
					if firstErr == nil || (err.todo && !firstErr.todo) {
						firstErr = err
					}
					continue
				}
				taint = taint || t
				n.deps = append(n.deps, mval{node: dn, tainted: t})
			default:
				v, t, err := m.scalarArg(a)
				if err != nil {
					if firstErr == nil || (err.todo && !firstErr.todo) {
						firstErr = err
					}
					continue
				}
				taint = taint || t
				n.deps = append(n.deps, mval{scalar: fmt.Sprintf("%T(%v)", v, v), tainted: t})
			}
		}
		if firstErr != nil {
			// a todo error of one argument may be masked in the message by another argument's error: only "an error" is required
			e := *firstErr
			return nil, false, &e
		}
		if strings.HasSuffix(s.Ctor, "NewNodeE") && m.armedUnknown && m.hasArmed("ctor:"+name) {
			taint = true // not judged: the countdown of the armed failure is unknown
		} else if strings.HasSuffix(s.Ctor, "NewNodeE") && m.fails("ctor:"+name) {
			return nil, false, &merr{text: "injected"}
		}
	}
	m.nextID++
	n.id = m.nextID
	switch eff {
	case "contextual":
		if m.tree == nil {
			m.tree = map[string]cachedS{}
		}
		m.tree[name] = cachedS{n, taint}
	case "non_shared":
	default:
		m.scache[name] = cachedS{n, taint}
	}
	return n, taint, nil
}

// ---- dependency view for tainting

func (m *model15) paramDeps(name string) []string {
	d := m.pdefs[name]
	switch d.kind {
	case "orig":
		_, _, ps := gen.ArgRefs([]gen.Arg{d.arg})
		return ps
	case "param":
		return []string{d.ref}
	}
	return nil
}

func (m *model15) paramDependsOn(name, target string, seen map[string]bool) bool {
	if seen[name] {
		return false
	}
	seen[name] = true
	for _, d := range m.paramDeps(name) {
		if d == target || m.paramDependsOn(d, target, seen) {
			return true
		}
	}
	return false
}

func (m *model15) svcDependsOnParam(name, target string, seen map[string]bool) bool {
	if seen["s:"+name] {
		return false
	}
	seen["s:"+name] = true
	if d, ok := m.sdefs[name]; !ok || !d.orig {
		return false
	}
	s := m.cfg.Svc(name)
	if s == nil || s.Todo {
		return false
	}
	svcs, _, ps := gen.ArgRefs(s.Args)
	for _, p := range ps {
		if p == target || m.paramDependsOn(p, target, map[string]bool{}) {
			return true
		}
	}
	for _, d := range svcs {
		if m.svcDependsOnParam(d, target, seen) {
			return true
		}
	}
	return false
}

func (m *model15) svcDependsOnSvc(name, target string, seen map[string]bool) bool {
	if seen[name] {
		return false
	}
	seen[name] = true
	if d, ok := m.sdefs[name]; !ok || !d.orig {
		return false
	}
	s := m.cfg.Svc(name)
	if s == nil || s.Todo {
		return false
	}
	svcs, _, _ := gen.ArgRefs(s.Args)
	for _, d := range svcs {
		if d == target || m.svcDependsOnSvc(d, target, seen) {
			return true
		}
	}
	return false
}

func (m *model15) overrideParam(name string, d pdef) {
	// already evaluated dependants keep what they have: from here on they are not judged
	for p, c := range m.pcache {
		if p != name && m.paramDependsOn(p, name, map[string]bool{}) {
			c.tainted = true
			m.pcache[p] = c
		}
	}
	for s, c := range m.scache {
		if m.svcDependsOnParam(s, name, map[string]bool{}) {
			c.tainted = true
			m.scache[s] = c
		}
	}
	m.pdefs[name] = d
	delete(m.pcache, name)
}

func (m *model15) overrideService(name string, marker int, scope string) {
	for s, c := range m.scache {
		if s != name && m.svcDependsOnSvc(s, name, map[string]bool{}) {
			c.tainted = true
			m.scache[s] = c
		}
	}
	m.sdefs[name] = sdef{marker: marker, scope: scope}
	delete(m.scache, name)
}

// paramCycleIfRef reports whether making p an alias of q would create a cycle.
func (m *model15) paramCycleIfRef(p, q string) bool {
	return p == q || m.paramDependsOn(q, p, map[string]bool{})
}
