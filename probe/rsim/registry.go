// Package rsim is engine 2: clients of a generated container under the seeded scheduler.
package rsim

import (
	"context"
	"encoding/json"

	"github.com/gontainer/gontainer-helpers/v3/container"
	"verifsim/gen"
)

// Container is the interface every generated container offers (docs/INTERFACE.md).
type Container interface {
	Get(serviceID string) (interface{}, error)
	GetInContext(ctx context.Context, serviceID string) (interface{}, error)
	GetTaggedBy(tag string) ([]interface{}, error)
	GetTaggedByInContext(ctx context.Context, tag string) ([]interface{}, error)
	GetParam(paramID string) (interface{}, error)
	OverrideParam(paramID string, d container.Dependency)
	OverrideService(serviceID string, s container.Service)
	Root() *container.Container
}

type Entry struct {
	Name string
	New  func() Container
	Cfg  *gen.Cfg
	Orig *gen.Cfg // set on the derived entry the models judge (placeholders replaced by their overrides): the configuration as generated
}

var registry = map[string]*Entry{}
var regOrder []string

// Register is called from the init function of every generated package of the probe.
func Register(name string, newFn func() Container, cfgJSON string) {
	var c gen.Cfg
	if err := json.Unmarshal([]byte(cfgJSON), &c); err != nil {
		panic("rsim.Register " + name + ": " + err.Error())
	}
	registry[name] = &Entry{Name: name, New: newFn, Cfg: &c}
	regOrder = append(regOrder, name)
}
