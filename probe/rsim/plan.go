package rsim

import (
	"fmt"
	"os"
	"sort"
	"strings"
	"sync/atomic"
	"unsafe"

	"verifprobe/fx"
	"verifsim/choice"
	"verifsim/gen"
	"verifsim/sched"
)

// Plan is one simulated run: client tasks with their operation lists plus the schedule.
type Plan struct {
	NCtx  int          `json:"nctx"`
	Tasks [][]Op       `json:"tasks"`
	Pre   []Op         `json:"pre,omitempty"`   // executed sequentially before the tasks start (Arm, SetEnv)
	Multi bool         `json:"multi,omitempty"` // every task constructs and uses a container of its own, inside the scheduled phase
	Sched sched.Config `json:"sched"`
}

// LastRunDigest fingerprints the last executed run (decision trace, outcome, history with results):
// the determinism self-test compares it across processes.
var LastRunDigest string

type RunOut struct {
	Results  []*OpResult
	Sched    *sched.Result
	RaceText string
	Reg      *Registry
}

func raceLogSize() (string, int64) {
	p := os.Getenv("VERIFSIM_RACELOG")
	if p == "" {
		return "", 0
	}
	p = fmt.Sprintf("%s.%d", p, os.Getpid())
	fi, err := os.Stat(p)
	if err != nil {
		return p, 0
	}
	return p, fi.Size()
}

// RunPlan executes a plan on a fresh container of entry e.
func RunPlan(e *Entry, p *Plan) *RunOut {
	fx.Disarm()
	sched.ResetLog()
	// baseline environment: every variable the generator's env()/envInt() parameters may name exists and is numeric
	os.Setenv("VSIM_E0", "8080")
	os.Setenv("VSIM_E1", "17")
	os.Setenv("VSIM_E2", "3")
	sessions := []*Session{NewSession(e, p.NCtx)}
	if p.Multi {
		sessions = nil
		for range p.Tasks {
			sessions = append(sessions, NewSession(e, p.NCtx))
		}
	}
	sess := sessions[0]
	racePath, before := raceLogSize()
	res := make([][]OpResult, len(p.Tasks))
	fns := make([]func(), len(p.Tasks))
	// construction and the preparatory operations (faults, overrides of placeholders) happen inside the
	// scheduled phase too, in task 0, while the other tasks wait: a goroutine that the generated constructor
	// starts is a task like any other and interleaves with what follows
	var ready atomic.Bool
	readyKey := uintptr(unsafe.Pointer(&ready))
	setup := func() {
		if !p.Multi {
			sess.Construct()
		}
		for i, op := range p.Pre {
			if p.Multi && op.Kind == "OvSvc" {
				continue // every task overrides the placeholders of its own container, right after constructing it
			}
			sess.Exec(-1, i, op)
		}
		ready.Store(true)
		sched.Wake(readyKey)
	}
	for t := range p.Tasks {
		t := t
		res[t] = make([]OpResult, len(p.Tasks[t]))
		fns[t] = func() {
			if t == 0 {
				setup()
			}
			for !ready.Load() {
				sched.Block(readyKey)
			}
			s := sess
			if p.Multi {
				s = sessions[t]
				s.Construct() // under the scheduler: yields inside the generated constructor interleave
				for i, op := range p.Pre {
					if op.Kind == "OvSvc" {
						s.Exec(-1, i, op)
					}
				}
				sched.Yield("probe.after-construct")
			}
			for i, op := range p.Tasks[t] {
				res[t][i] = s.Exec(t, i, op)
				sched.Yield("probe.between-ops")
			}
		}
	}
	out := &RunOut{Reg: NewRegistry()}
	out.Sched = sched.Run(p.Sched, fns)
	if out.Sched.Outcome == "finished" {
		for _, s := range sessions {
			out.Reg.containers = append(out.Reg.containers, s.C)
		}
		for t := range res {
			for i := range res[t] {
				r := &res[t][i]
				if r.Err == "" && r.Panic == "" {
					r.Val = out.Reg.Describe(r.raw, 0)
				}
				out.Results = append(out.Results, r)
			}
		}
		sort.SliceStable(out.Results, func(i, j int) bool { return out.Results[i].Invoke < out.Results[j].Invoke })
		for _, s := range sessions {
			if s.C != nil {
				s.Close()
			}
		}
	}
	LastRunDigest = shortHash(fmt.Sprintf("%v|%s|%d|%d|%s", out.Sched.Trace, out.Sched.Outcome, out.Sched.Steps, out.Sched.Blocks, historyDigestString(out.Results)))
	if racePath != "" {
		if _, after := raceLogSize(); after > before {
			if b, err := os.ReadFile(racePath); err == nil && int64(len(b)) >= after {
				out.RaceText = string(b[before:after])
			}
		}
	}
	return out
}

// mustGetter reports whether the configuration gives service s a must-getter.
func mustGetter(cfg *gen.Cfg, s *gen.Svc) bool {
	if s.Getter == "" {
		return false
	}
	if s.MustGetter != nil {
		return *s.MustGetter
	}
	return cfg.Meta.DefaultMustGetter != nil && *cfg.Meta.DefaultMustGetter
}

// readerOps lists every reader operation the configuration offers.
func readerOps(cfg *gen.Cfg, nctx int, withParams bool) []Op {
	var ops []Op
	tags := map[string]bool{}
	for i := range cfg.Services {
		s := &cfg.Services[i]
		ops = append(ops, Op{Kind: "Get", Name: s.Name})
		for c := 0; c < nctx; c++ {
			ops = append(ops, Op{Kind: "GetCtx", Name: s.Name, Ctx: c})
		}
		if s.Getter != "" && !s.Todo {
			ops = append(ops, Op{Kind: "Getter", Name: s.Getter}, Op{Kind: "GetterCtx", Name: s.Getter, Ctx: 0}, Op{Kind: "GetterCtx", Name: s.Getter, Ctx: 1 % nctx})
			if mustGetter(cfg, s) {
				ops = append(ops, Op{Kind: "MustGetter", Name: s.Getter}, Op{Kind: "MustGetterCtx", Name: s.Getter, Ctx: 0}, Op{Kind: "MustGetterCtx", Name: s.Getter, Ctx: 1 % nctx})
			}
		}
		for _, t := range s.Tags {
			tags[t.Name] = true
		}
	}
	tn := make([]string, 0, len(tags))
	for t := range tags {
		tn = append(tn, t)
	}
	sort.Strings(tn)
	for _, t := range tn {
		ops = append(ops, Op{Kind: "Tagged", Name: t})
		for c := 0; c < nctx; c++ {
			ops = append(ops, Op{Kind: "TaggedCtx", Name: t, Ctx: c})
		}
	}
	if withParams {
		for _, p := range cfg.Params {
			ops = append(ops, Op{Kind: "GetParam", Name: p.Name})
		}
	}
	return ops
}

func genReaderPlan(src *choice.Src, cfg *gen.Cfg, minTasks, maxTasks, maxOps int, withParams bool) *Plan {
	p := &Plan{NCtx: 3}
	pool := readerOps(cfg, p.NCtx, withParams)
	nt := src.Range("ntasks", minTasks, maxTasks)
	total := src.Range("nops", 2, maxOps)
	p.Tasks = make([][]Op, nt)
	if len(pool) == 0 {
		return p
	}
	// bias: a few "hot" operations so that tasks meet on the same services
	hot := []Op{choice.Pick(src, "hot", pool), choice.Pick(src, "hot", pool)}
	for i := 0; i < total; i++ {
		t := src.Draw("optask", nt)
		var op Op
		if src.Chance("hotop", 1, 3) {
			op = choice.Pick(src, "hotpick", hot)
		} else {
			op = choice.Pick(src, "op", pool)
		}
		p.Tasks[t] = append(p.Tasks[t], op)
	}
	if nt == 1 && len(p.Tasks[0]) > 1 && src.Chance("cancel", 1, 3) {
		// sequential histories may cancel an attached context: every later operation in that context
		// must fail without constructing anything
		at := 1 + src.Draw("cancel.at", len(p.Tasks[0])-1)
		c := Op{Kind: "Cancel", Ctx: src.Draw("cancel.ctx", p.NCtx)}
		ops := append([]Op{}, p.Tasks[0][:at]...)
		ops = append(ops, c)
		p.Tasks[0] = append(ops, p.Tasks[0][at:]...)
	}
	if nt > 1 && src.Chance("cancel.concurrent", 1, 5) {
		// one task cancels an attached context while the others use it
		t := src.Draw("cancel.task", nt)
		c := Op{Kind: "Cancel", Ctx: src.Draw("cancel.ctx", p.NCtx)}
		at := src.Draw("cancel.at", len(p.Tasks[t])+1)
		ops := append([]Op{}, p.Tasks[t][:at]...)
		ops = append(ops, c)
		p.Tasks[t] = append(ops, p.Tasks[t][at:]...)
	}
	p.Sched = sched.Config{Seed: uint64(src.Draw("sched.seed", 1<<30)) + 1, Policy: src.Draw("sched.policy", sched.NPolicies), StepCap: 200000}
	return p
}

func planString(p *Plan) string {
	var sb strings.Builder
	for t, ops := range p.Tasks {
		fmt.Fprintf(&sb, "  task %d:", t)
		for _, o := range ops {
			fmt.Fprintf(&sb, " %s", o)
		}
		sb.WriteString("\n")
	}
	return sb.String()
}
