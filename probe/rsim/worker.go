package rsim

import (
	"encoding/json"
	"flag"
	"fmt"
	"os"
	"sort"
	"strings"
	"time"

	"verifsim/choice"
)

type BatchOut struct {
	Prop       string       `json:"prop"`
	Seed       uint64       `json:"seed"`
	From       int          `json:"from"`
	To         int          `json:"to"`
	Done       int          `json:"done"`
	Stats      *Stats       `json:"stats"`
	Distinct   []string     `json:"distinct"`
	Interleave []string     `json:"interleave"`
	Violations []*Violation `json:"violations"`
	Aborted    string       `json:"aborted,omitempty"`
	WallS      float64      `json:"wall_s"`
	EventLog   []string     `json:"event_log,omitempty"`
	Configs    []string     `json:"configs"`
}

var enumIdx int

func writeJSON(path string, v any) {
	b, err := json.MarshalIndent(v, "", " ")
	if err != nil {
		panic(err)
	}
	if path == "" || path == "-" {
		os.Stdout.Write(b)
		return
	}
	if err := os.WriteFile(path, b, 0644); err != nil {
		panic(err)
	}
}

// Main is the main function of the probe binary.
func Main() {
	if len(os.Args) < 2 {
		fmt.Fprintln(os.Stderr, "usage: probe run|replay|list ...")
		os.Exit(2)
	}
	mode := os.Args[1]
	fs := flag.NewFlagSet(mode, flag.ExitOnError)
	prop := fs.String("prop", "C05", "")
	seed := fs.Uint64("seed", 1, "")
	from := fs.Int("from", 0, "")
	to := fs.Int("to", 10, "")
	out := fs.String("out", "", "")
	file := fs.String("file", "", "")
	maxS := fs.Float64("max-s", 0, "")
	shrink := fs.Int("shrink", 120, "")
	evlog := fs.Bool("eventlog", false, "")
	_ = fs.Parse(os.Args[2:])
	switch mode {
	case "list":
		sort.Strings(regOrder)
		for _, n := range regOrder {
			fmt.Println(n)
		}
	case "run":
		os.Exit(runBatch(*prop, *seed, *from, *to, *out, *maxS, *shrink, *evlog))
	case "replay":
		os.Exit(replayFile(*file))
	default:
		os.Exit(2)
	}
}

func runBatch(prop string, seed uint64, from, to int, out string, maxS float64, shrinkBudget int, evlog bool) int {
	enum15 := prop == "C15enum"
	if enum15 {
		prop = "C15"
	}
	check := checks[prop]
	if check == nil {
		fmt.Fprintln(os.Stderr, "no such check:", prop)
		return 2
	}
	names := append([]string{}, regOrder...)
	sort.Strings(names)
	if enum15 {
		if registry["cenum"] == nil {
			fmt.Fprintln(os.Stderr, "configuration cenum is not in this probe")
			return 2
		}
		names = []string{"cenum"}
		if to > EnumCount15() {
			to = EnumCount15()
		}
		check = func(e *Entry, src *choice.Src, st *Stats) *Violation { return runC15(e, enumHistory15(enumIdx), st) }
		shrinkBudget = 0
	} else {
		// the enumeration's configuration takes no part in the random batches
		var n2 []string
		for _, n := range names {
			if n != "cenum" {
				n2 = append(n2, n)
			}
		}
		names = n2
	}
	if len(names) == 0 {
		fmt.Fprintln(os.Stderr, "no configurations registered")
		return 2
	}
	t0 := time.Now()
	bo := &BatchOut{Prop: prop, Seed: seed, From: from, To: to, Done: from, Stats: NewStats(), Configs: names}
	sigSeen := map[string]bool{}
	code := 0
	earlier := map[string][][]Op{} // C15: the last histories per configuration in this process
	for i := from; i < to; i++ {
		if maxS > 0 && time.Since(t0).Seconds() > maxS {
			break
		}
		e := registry[names[i%len(names)]]
		enumIdx = i
		src := choice.New(choice.Mix(seed, uint64(i)))
		v := check(e, src, bo.Stats)
		bo.Done = i + 1
		var prelude [][]Op
		if prop == "C15" {
			prelude = append(prelude, earlier[e.Name]...)
			h := append(earlier[e.Name], append([]Op{}, LastOps15...))
			if len(h) > 8 {
				// the first history of the process (one-time initialisations happen there) and the last seven
				h = append([][]Op{h[0]}, h[len(h)-7:]...)
			}
			earlier[e.Name] = h
		}
		if evlog {
			d := "ok"
			if v != nil {
				d = v.Sig
			}
			bo.EventLog = append(bo.EventLog, fmt.Sprintf("%d %s %s %s %s", i, e.Name, shortHash(fmt.Sprint(src.Values())), LastRunDigest, d))
		}
		stuck := bo.Stats.Outcomes["deadlock"]+bo.Stats.Outcomes["stepcap"]+bo.Stats.Outcomes["stalled"] > 0
		if v != nil {
			v.Seed, v.Index, v.Choices = seed, i, src.Values()
			if !sigSeen[v.Sig] && len(bo.Violations) < 30 {
				sigSeen[v.Sig] = true
				if !stuck && shrinkBudget > 0 && !strings.HasPrefix(v.Sig, "data-race:") { // a race is reported once per process: it cannot be re-observed here
					shrinkViolation(check, e, v, shrinkBudget)
				}
				v.Prelude = prelude
				bo.Violations = append(bo.Violations, v)
			}
		}
		if stuck {
			// parked goroutines of the unfinished run still exist in this process: stop here
			bo.Aborted = "deadlock-or-stepcap"
			code = 3
			break
		}
	}
	for k := range bo.Stats.Distinct {
		bo.Distinct = append(bo.Distinct, k)
	}
	for k := range bo.Stats.Interleave {
		bo.Interleave = append(bo.Interleave, k)
	}
	sort.Strings(bo.Distinct)
	sort.Strings(bo.Interleave)
	bo.WallS = time.Since(t0).Seconds()
	writeJSON(out, bo)
	return code
}

func shrinkViolation(check checkFn, e *Entry, v *Violation, budget int) {
	sig := v.Sig
	var best *Violation
	fails := func(c []int) bool {
		st := NewStats()
		nv := check(e, choice.Replay(c), st)
		if st.Outcomes["deadlock"]+st.Outcomes["stepcap"] > 0 {
			budget = 0 // cannot continue safely in this process
		}
		if nv != nil && nv.Sig == sig {
			nv.Choices = append([]int{}, c...)
			best = nv
			return true
		}
		return false
	}
	min := choice.Shrink(v.Choices, budget, fails)
	if best != nil {
		best.Seed, best.Index, best.Choices = v.Seed, v.Index, min
		*v = *best
	}
}

func replayFile(path string) int {
	b, err := os.ReadFile(path)
	if err != nil {
		fmt.Fprintln(os.Stderr, err)
		return 2
	}
	var v Violation
	if err := json.Unmarshal(b, &v); err != nil {
		fmt.Fprintln(os.Stderr, err)
		return 2
	}
	e := registry[v.Config]
	if e == nil {
		// the replay probe holds exactly one configuration
		for _, x := range registry {
			e = x
		}
	}
	if e == nil {
		fmt.Fprintln(os.Stderr, "no configuration in this probe")
		return 2
	}
	if v.Property == "C15" {
		nv := runC15(e, v.Plan.Tasks[0], nil)
		ks := []int{1, 2, 4, len(v.Prelude), -1}
		for i, k := range ks {
			if nv != nil || k > len(v.Prelude) || (i > 0 && k > 0 && k <= ks[i-1]) || len(v.Prelude) == 0 {
				continue
			}
			// not on its own: after the k histories that preceded it in the same process (each on a container of
			// its own; the reference model starts afresh at every New); -1: after the process's first history only
			var ops []Op
			pre := v.Prelude[:1]
			if k > 0 {
				pre = v.Prelude[len(v.Prelude)-k:]
			}
			for _, h := range pre {
				ops = append(ops, h...)
			}
			ops = append(ops, v.Plan.Tasks[0]...)
			if nv = runC15(e, ops, nil); nv != nil {
				fmt.Printf("note: the history alone does not show it; it does after %d earlier histories on other containers of the same type in one process (state shared between containers)\n", k)
			}
		}
		if nv == nil {
			fmt.Printf("NOT-REPRODUCED property=%s recorded-sig=%s\n", v.Property, v.Sig)
			return 0
		}
		fmt.Printf("REPRODUCED property=%s sig=%s recorded-sig=%s\n%s\n", v.Property, nv.Sig, v.Sig, nv.Detail)
		return 1
	}
	judge := judges[v.Property]
	if judge == nil {
		fmt.Fprintln(os.Stderr, "no judge for", v.Property)
		return 2
	}
	p := *v.Plan
	p.Sched.Replay = v.Trace
	attempts := 1
	if strings.HasPrefix(v.Sig, "data-race:") {
		// the schedule replays exactly, but whether the race detector still holds the conflicting
		// earlier access in its 4-slot shadow cell depends on its internal clocks: give it a few
		// identical executions (each on a fresh container) before concluding
		attempts = 25
	}
	var nv *Violation
	var out *RunOut
	for a := 0; a < attempts && nv == nil; a++ {
		out = RunPlan(e, &p)
		nv = judge(e, &p, out)
		if nv != nil && a > 0 {
			fmt.Printf("note: reproduced on execution %d of the same schedule\n", a+1)
		}
	}
	if nv == nil {
		fmt.Printf("NOT-REPRODUCED property=%s recorded-sig=%s\n", v.Property, v.Sig)
		return 0
	}
	fmt.Printf("REPRODUCED property=%s sig=%s recorded-sig=%s\n%s\n", v.Property, nv.Sig, v.Sig, nv.Detail)
	return 1
}
