package rsim

import (
	"fmt"
	"sort"
	"strings"

	"verifsim/gen"
)

// Obs is one observation of a service instance somewhere in a result.
type Obs struct {
	Svc string
	ID  int
	Occ string // where it was injected: "#<parent id>/<slot>" or the operation itself
	Ctx string // context key: "ctx<i>" for an attached context, otherwise the operation (one call tree)
	Op  string
}

func ctxKey(r *OpResult) string {
	switch r.Op.Kind {
	case "GetCtx", "TaggedCtx", "GetterCtx", "MustGetterCtx":
		return fmt.Sprintf("ctx%d", r.Op.Ctx)
	}
	return fmt.Sprintf("call-tree(task %d op %d)", r.Task, r.Index)
}

func opKey(r *OpResult) string { return fmt.Sprintf("task %d op %d %s", r.Task, r.Index, r.Op) }

func walkDesc(d *Desc, ctx, occ, op string, out *[]Obs) { walkDescNamed(d, ctx, occ, op, "", out) }

// walkDescNamed: topName names the service when the object itself carries no name (a bare value
// service fetched at top level).
func walkDescNamed(d *Desc, ctx, occ, op, topName string, out *[]Obs) {
	if d == nil {
		return
	}
	self := occ
	switch d.Kind {
	case "node":
		svc := d.Svc
		if svc == "" {
			svc = topName
		}
		*out = append(*out, Obs{Svc: svc, ID: d.ID, Occ: occ, Ctx: ctx, Op: op})
		self = fmt.Sprintf("#%d", d.ID)
	case "val":
		self = occ + "/val"
	case "slice":
		for i, c := range d.Deps {
			walkDesc(c, ctx, fmt.Sprintf("%s[%d]", occ, i), op, out)
		}
		return
	default:
		return
	}
	for i, c := range d.Deps {
		walkDesc(c, ctx, fmt.Sprintf("%s/dep%d", self, i), op, out)
	}
	walkDesc(d.F1, ctx, self+"/F1", op, out)
	walkDesc(d.F2, ctx, self+"/F2", op, out)
	walkDesc(d.F3, ctx, self+"/f3", op, out)
	for j, c := range d.Calls {
		for k, a := range c.Args {
			walkDesc(a, ctx, fmt.Sprintf("%s/call%d.%d", self, j, k), op, out)
		}
	}
	for j, c := range d.Decos {
		for k, a := range c.Args {
			walkDesc(a, ctx, fmt.Sprintf("%s/deco%d.%d", self, j, k), op, out)
		}
	}
}

// Observe collects every instance observation of a history.
func Observe(cfg *gen.Cfg, results []*OpResult) []Obs {
	var out []Obs
	for _, r := range results {
		if r.Err != "" || r.Panic != "" || r.Val == nil {
			continue
		}
		top := ""
		switch r.Op.Kind {
		case "Get", "GetCtx":
			top = r.Op.Name
		case "Getter", "GetterCtx", "MustGetter", "MustGetterCtx":
			for _, s := range cfg.Services {
				if s.Getter == r.Op.Name {
					top = s.Name
				}
			}
		}
		walkDescNamed(r.Val, ctxKey(r), "top:"+opKey(r), opKey(r), top, &out)
	}
	return out
}

// CheckIdentity evaluates the scope reference model (docs/SERVICES.md, runtime README):
// shared: one instance per container; contextual: one per attached context or per call tree,
// never the same in two; non_shared: a fresh instance for every injection and every Get;
// unset: contextual iff it transitively depends on a contextual service, else shared.
func CheckIdentity(cfg *gen.Cfg, obs []Obs) (clause, detail string) {
	eff := gen.EffectiveScope(cfg)
	bySvc := map[string][]Obs{}
	for _, o := range obs {
		if _, ok := eff[o.Svc]; ok {
			bySvc[o.Svc] = append(bySvc[o.Svc], o)
		}
	}
	names := make([]string, 0, len(bySvc))
	for n := range bySvc {
		names = append(names, n)
	}
	sort.Strings(names)
	for _, n := range names {
		os := bySvc[n]
		decl := cfg.Svc(n).Scope
		if decl == "" {
			decl = "unset"
		}
		tag := fmt.Sprintf("decl=%s,eff=%s", decl, eff[n])
		switch eff[n] {
		case "shared":
			for _, o := range os[1:] {
				if o.ID != os[0].ID {
					return "shared-instantiated-more-than-once|" + tag,
						fmt.Sprintf("service %q (%s) must have one instance per container, but %s saw instance #%d and %s saw instance #%d", n, tag, os[0].Op, os[0].ID, o.Op, o.ID)
				}
			}
		case "contextual":
			perCtx := map[string]Obs{}
			owner := map[int]Obs{}
			for _, o := range os {
				if p, ok := perCtx[o.Ctx]; ok && p.ID != o.ID {
					return "contextual-not-reused-within-context|" + tag,
						fmt.Sprintf("service %q (%s) must have one instance per context, but within %s: %s saw #%d and %s saw #%d", n, tag, o.Ctx, p.Op, p.ID, o.Op, o.ID)
				}
				perCtx[o.Ctx] = o
				if p, ok := owner[o.ID]; ok && p.Ctx != o.Ctx {
					return "contextual-shared-between-contexts|" + tag,
						fmt.Sprintf("service %q (%s): instance #%d was observed in %s (%s) and in %s (%s)", n, tag, o.ID, p.Ctx, p.Op, o.Ctx, o.Op)
				}
				owner[o.ID] = o
			}
		case "non_shared":
			byOcc := map[string]Obs{}
			owner := map[int]Obs{}
			for _, o := range os {
				if p, ok := byOcc[o.Occ]; ok && p.ID != o.ID {
					return "injection-slot-changed-identity|" + tag, fmt.Sprintf("service %q: slot %s held #%d and later #%d", n, o.Occ, p.ID, o.ID)
				}
				byOcc[o.Occ] = o
				if p, ok := owner[o.ID]; ok && p.Occ != o.Occ {
					return "non_shared-reused|" + tag,
						fmt.Sprintf("service %q (%s) must be fresh for every injection and every Get, but instance #%d appears at %s (%s) and at %s (%s)", n, tag, o.ID, p.Occ, p.Op, o.Occ, o.Op)
				}
				owner[o.ID] = o
			}
		}
	}
	return "", ""
}

func historyString(results []*OpResult) string {
	var sb strings.Builder
	for _, r := range results {
		res := "ok"
		if r.Err != "" {
			res = "error: " + r.Err
		}
		if r.Panic != "" {
			res = "panic: " + r.Panic
		}
		if len(res) > 160 {
			res = res[:160] + "..."
		}
		fmt.Fprintf(&sb, "  [%d..%d] task %d op %d %s -> %s\n", r.Invoke, r.Return, r.Task, r.Index, r.Op, res)
	}
	return sb.String()
}

// historyDigestString is historyString without the absolute sequence stamps (they continue
// across the runs of one process), keeping order and outcomes.
func historyDigestString(results []*OpResult) string {
	var sb strings.Builder
	var base int64
	if len(results) > 0 {
		base = results[0].Invoke
	}
	for _, r := range results {
		fmt.Fprintf(&sb, "%d..%d t%d.%d %s err=%q panic=%q val=%v\n", r.Invoke-base, r.Return-base, r.Task, r.Index, r.Op, r.Err, r.Panic, descDigest(r.Val))
	}
	return sb.String()
}

func descDigest(d *Desc) string {
	if d == nil {
		return "-"
	}
	var sb strings.Builder
	fmt.Fprintf(&sb, "%s#%d:%s:%s(", d.Kind, d.ID, d.Svc, d.V)
	for _, c := range d.Deps {
		sb.WriteString(descDigest(c))
		sb.WriteString(",")
	}
	sb.WriteString(")")
	return sb.String()
}
