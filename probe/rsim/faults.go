package rsim

import (
	"fmt"
	"sort"
	"strings"

	"verifsim/choice"
	"verifsim/gen"
)

// Fault injection for the reader workloads (C05, C20): before the tasks start, user callbacks are
// armed to fail on their n-th invocation (constructors that return an error, the decorator that
// returns an error, the parameter function) and environment variables that some parameter reads
// without a default are removed. The relaxation of the oracles is per operation and narrow:
//   - an operation may fail only if a fault can reach it: its service / parameter closure (arguments,
//     fields, calls, tags, decorators of the tags it carries, parameter references) contains an armed
//     callback or a parameter that reads a removed variable without a default;
//   - an operation whose closure contains a parameter that reads a removed variable without a default
//     must fail (the variable is absent for the whole run);
//   - everything else is judged as in a fault-free run: identity of the successful results,
//     successful constructions and evaluations at most once, every operation returns.

type reach struct {
	svcs   map[string]bool
	params map[string]bool
}

func paramClosure(cfg *gen.Cfg, name string, out map[string]bool) {
	if out[name] {
		return
	}
	out[name] = true
	p := cfg.Param(name)
	if p == nil {
		return
	}
	_, _, ps := gen.ArgRefs([]gen.Arg{p.V})
	for _, q := range ps {
		paramClosure(cfg, q, out)
	}
}

func svcClosure(cfg *gen.Cfg, name string, r *reach) {
	if r.svcs[name] {
		return
	}
	s := cfg.Svc(name)
	if s == nil {
		return
	}
	r.svcs[name] = true
	if s.Todo {
		return
	}
	args := s.AllArgs()
	for _, d := range cfg.Decorators {
		if s.HasTag(d.Tag) {
			args = append(args, d.Args...)
		}
	}
	svcs, tags, ps := gen.ArgRefs(args)
	for _, p := range ps {
		paramClosure(cfg, p, r.params)
	}
	for _, d := range svcs {
		svcClosure(cfg, d, r)
	}
	for _, t := range tags {
		for _, d := range cfg.Tagged(t) {
			svcClosure(cfg, d, r)
		}
	}
}

// opReach is everything an operation may construct or evaluate.
func opReach(cfg *gen.Cfg, op Op) *reach {
	r := &reach{svcs: map[string]bool{}, params: map[string]bool{}}
	switch op.Kind {
	case "Get", "GetCtx":
		svcClosure(cfg, op.Name, r)
	case "Getter", "GetterCtx", "MustGetter", "MustGetterCtx":
		for _, s := range cfg.Services {
			if s.Getter == op.Name {
				svcClosure(cfg, s.Name, r)
			}
		}
	case "Tagged", "TaggedCtx":
		for _, n := range cfg.Tagged(op.Name) {
			svcClosure(cfg, n, r)
		}
	case "GetParam":
		paramClosure(cfg, op.Name, r.params)
	}
	return r
}

// readsWithoutDefault: parameter p reads environment variable key and has no default for it.
func readsWithoutDefault(p *gen.Param, key string) bool {
	if p == nil || p.V.Kind != "pattern" {
		return false
	}
	for _, c := range p.V.Chunks {
		if (c.Kind == "env" || c.Kind == "envInt") && c.S == key && !c.HasDef {
			return true
		}
	}
	return false
}

// faultVerdict says whether the faults of the plan may, and whether they must, make op fail.
func faultVerdict(cfg *gen.Cfg, pre []Op, op Op) (may, must bool, why string) {
	if len(pre) == 0 {
		return false, false, ""
	}
	r := opReach(cfg, op)
	for _, f := range pre {
		switch f.Kind {
		case "UnsetEnv":
			for p := range r.params {
				if readsWithoutDefault(cfg.Param(p), f.Name) {
					return true, true, fmt.Sprintf("parameter %q reads %s, which does not exist, and has no default", p, f.Name)
				}
			}
		case "Arm":
			kind, name, _ := strings.Cut(f.Name, ":")
			switch kind {
			case "ctor", "deco":
				if r.svcs[name] {
					may, why = true, "armed "+f.Name
				}
			case "fn":
				if r.params[name] {
					may, why = true, "armed "+f.Name
				}
			}
		}
	}
	return may, false, why
}

// genFaults draws the faults of a reader plan (nil for most plans: fault-free and fault-injecting
// runs are judged by the same clauses, but kept apart in the statistics).
func genFaults(src *choice.Src, cfg *gen.Cfg) []Op {
	if !src.Chance("faults", 1, 3) {
		return nil
	}
	var menu []Op
	for _, s := range cfg.Services {
		if s.Todo {
			continue
		}
		if strings.HasSuffix(s.Ctor, "NewNodeE") {
			menu = append(menu, Op{Kind: "Arm", Name: "ctor:" + s.Name})
		}
		for _, d := range cfg.Decorators {
			if s.HasTag(d.Tag) && strings.HasSuffix(d.Fn, "DecorateE") {
				menu = append(menu, Op{Kind: "Arm", Name: "deco:" + s.Name})
				break
			}
		}
	}
	envs := map[string]bool{}
	for i := range cfg.Params {
		p := &cfg.Params[i]
		if p.V.Kind != "pattern" {
			continue
		}
		for _, c := range p.V.Chunks {
			switch c.Kind {
			case "fn":
				menu = append(menu, Op{Kind: "Arm", Name: "fn:" + c.Def})
			case "env", "envInt":
				if !c.HasDef {
					envs[c.S] = true
				}
			}
		}
	}
	keys := make([]string, 0, len(envs))
	for k := range envs {
		keys = append(keys, k)
	}
	sort.Strings(keys)
	for _, k := range keys {
		menu = append(menu, Op{Kind: "UnsetEnv", Name: k})
	}
	if len(menu) == 0 {
		return nil
	}
	var pre []Op
	n := src.Range("faults.n", 1, 2)
	for i := 0; i < n; i++ {
		f := choice.Pick(src, "faults.pick", menu)
		if f.Kind == "Arm" {
			f.Nth = src.Range("faults.nth", 1, 3)
		}
		pre = append(pre, f)
	}
	return pre
}
