// Package fx is the fixture universe: the "user code" that generated containers are wired
// over in engine 2. Every constructor, method, decorator and parameter function records an
// event, yields to the scheduler on entry and exit (this is where user code "takes time"),
// and asks the fault table whether to fail this time.
package fx

import (
	"errors"
	"fmt"

	"github.com/gontainer/gontainer-helpers/v3/container"
	"verifsim/sched"
)

type CallRec struct {
	Method string
	Args   []any
}

type DecoRec struct {
	Tag       string
	ServiceID string
	Args      []any
}

type Node struct {
	Name   string
	Serial int64
	Deps   []any
	F1     any
	F2     any
	f3     any
	Calls  []CallRec
	Decos  []DecoRec
}

func (n *Node) F3() any { return n.f3 }

type Opt struct{}

var GlobalVal = "gv"

// ---- fault table (fixed size, norace: read by every task)

const maxArmed = 16

var (
	armedName [maxArmed]string
	armedNth  [maxArmed]int
	nArmed    int
)

// Arm makes the nth (1-based) next invocation of the named callback fail.
//
//go:norace
func Arm(name string, nth int) {
	if nArmed < maxArmed {
		armedName[nArmed], armedNth[nArmed] = name, nth
		nArmed++
	}
}

//go:norace
func Disarm() { nArmed = 0 }

//go:norace
func shouldFail(name string) bool {
	for i := 0; i < nArmed; i++ {
		if armedName[i] == name && armedNth[i] > 0 {
			armedNth[i]--
			if armedNth[i] == 0 {
				return true
			}
		}
	}
	return false
}

func enter(kind, name string) int64 {
	s := sched.NextSerial()
	sched.Record(kind, name, "enter", s)
	sched.Yield("fx." + kind + ".in")
	return s
}

func leave(kind, name string, s int64, failed bool) {
	sched.Yield("fx." + kind + ".out")
	st := "ok"
	if failed {
		st = "fail"
	}
	sched.Record(kind, name, st, s)
}

func NewNode(name string, deps ...any) *Node {
	s := enter("ctor", name)
	n := &Node{Name: name, Serial: s, Deps: deps}
	leave("ctor", name, s, false)
	return n
}

func NewNodeE(name string, deps ...any) (*Node, error) {
	s := enter("ctor", name)
	if shouldFail("ctor:" + name) {
		leave("ctor", name, s, true)
		return nil, fmt.Errorf("injected failure of constructor %s", name)
	}
	n := &Node{Name: name, Serial: s, Deps: deps}
	leave("ctor", name, s, false)
	return n, nil
}

func NewLeaf() *Node {
	s := enter("ctor", "leaf")
	n := &Node{Name: "leaf", Serial: s}
	leave("ctor", "leaf", s, false)
	return n
}

func (n *Node) SetA(v ...any) {
	s := enter("call", "SetA")
	n.Calls = append(n.Calls, CallRec{"SetA", v})
	leave("call", "SetA", s, false)
}

func (n *Node) SetB(v ...any) {
	s := enter("call", "SetB")
	n.Calls = append(n.Calls, CallRec{"SetB", v})
	leave("call", "SetB", s, false)
}

func (n *Node) WithA(v ...any) *Node {
	s := enter("call", "WithA")
	n.Calls = append(n.Calls, CallRec{"WithA", v})
	leave("call", "WithA", s, false)
	return n
}

func decorate(p container.DecoratorPayload, deps []any) {
	if n, ok := p.Service.(*Node); ok && n != nil {
		n.Decos = append(n.Decos, DecoRec{p.Tag, p.ServiceID, deps})
	}
}

func Decorate(p container.DecoratorPayload, deps ...any) any {
	s := enter("deco", p.ServiceID)
	decorate(p, deps)
	leave("deco", p.ServiceID, s, false)
	return p.Service
}

func DecorateE(p container.DecoratorPayload, deps ...any) (any, error) {
	s := enter("deco", p.ServiceID)
	if shouldFail("deco:" + p.ServiceID) {
		leave("deco", p.ServiceID, s, true)
		return nil, errors.New("injected failure of decorator on " + p.ServiceID)
	}
	decorate(p, deps)
	leave("deco", p.ServiceID, s, false)
	return p.Service, nil
}

// Fn is the parameter function registered in meta.functions.
func Fn(args ...any) (any, error) {
	name := fmt.Sprint(args...)
	s := enter("fn", name)
	if shouldFail("fn:" + name) {
		leave("fn", name, s, true)
		return nil, errors.New("injected failure of function " + name)
	}
	leave("fn", name, s, false)
	return "fn(" + name + ")", nil
}
