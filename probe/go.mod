module verifprobe

go 1.21

require (
	github.com/gontainer/gontainer-helpers/v3 v3.0.0-20231102220126-cd3ac9fbe738
	verifsim v0.0.0
)

require gonum.org/v1/gonum v0.14.0 // indirect

replace verifsim => ../sim
