// Package prep builds the instrumented scratch copies the engines run.
package prep

import (
	"bytes"
	"fmt"
	"os"
	"os/exec"
	"path/filepath"
	"strings"
	"time"

	"verif/instr"
)

const HelpersMod = "github.com/gontainer/gontainer-helpers/v3"

type Scratch struct {
	Dir          string // root of the scratch area (removed by Cleanup)
	Repo         string // instrumented copy of the working tree
	Helpers      string // instrumented copy of the runtime module
	Sim          string // copy of /verif/sim
	Worker       string // engine-1 worker binary
	WorkerRace   bool   // the worker is a race-detector build (the tree starts goroutines of its own)
	Pristine     string // uninstrumented copy of internal/gontainer (the self-configuration and its checked-in output)
	PristineTree string // uninstrumented copy of the whole working tree (the real binary is built from it on demand)
	RepoRep      *instr.Report
	HelpersRep   *instr.Report
	BuildS       float64
}

func (s *Scratch) Cleanup() {
	if s != nil && s.Dir != "" && os.Getenv("VERIF_KEEP") == "" {
		_ = exec.Command("chmod", "-R", "u+w", s.Dir).Run()
		_ = os.RemoveAll(s.Dir)
	}
}

func GoEnv() []string {
	return []string{"GOFLAGS=-mod=mod", "GOPROXY=off", "GOSUMDB=off", "GOTOOLCHAIN=local", "CGO_ENABLED=1"}
}

func run(dir string, env []string, name string, args ...string) (string, error) {
	cmd := exec.Command(name, args...)
	cmd.Dir = dir
	cmd.Env = append(os.Environ(), env...)
	var out bytes.Buffer
	cmd.Stdout = &out
	cmd.Stderr = &out
	err := cmd.Run()
	if err != nil {
		return out.String(), fmt.Errorf("%s %s: %v\n%s", name, strings.Join(args, " "), err, out.String())
	}
	return out.String(), nil
}

func ScratchBase() string {
	if d := os.Getenv("VERIF_SCRATCH"); d != "" {
		return d
	}
	return "/var/tmp"
}

// VerifDir returns the directory holding sim/ (the directory of the running checkout).
func VerifDir() string {
	if d := os.Getenv("VERIF_DIR"); d != "" {
		return d
	}
	exe, err := os.Executable()
	if err == nil {
		d := filepath.Dir(filepath.Dir(exe))
		if _, err := os.Stat(filepath.Join(d, "sim", "go.mod")); err == nil {
			return d
		}
	}
	wd, _ := os.Getwd()
	return wd
}

func copyTree(src, dst string, excludeGit bool) error {
	if err := os.MkdirAll(dst, 0755); err != nil {
		return err
	}
	args := []string{"-a", "--chmod=u+w"}
	if excludeGit {
		args = append(args, "--exclude=.git")
	}
	args = append(args, src+"/", dst+"/")
	_, err := run("", nil, "rsync", args...)
	return err
}

func appendFile(path, text string) error {
	f, err := os.OpenFile(path, os.O_APPEND|os.O_WRONLY, 0644)
	if err != nil {
		return err
	}
	defer f.Close()
	_, err = f.WriteString(text)
	return err
}

// Base copies the working tree, the runtime module and the simulation runtime into a fresh
// scratch directory and wires the modules together. Nothing is instrumented yet.
func Base(repo string) (*Scratch, error) {
	t0 := time.Now()
	dir, err := os.MkdirTemp(ScratchBase(), "verifsim-")
	if err != nil {
		return nil, err
	}
	s := &Scratch{Dir: dir, Repo: filepath.Join(dir, "repo"), Helpers: filepath.Join(dir, "helpers"), Sim: filepath.Join(dir, "sim")}
	if err := copyTree(repo, s.Repo, true); err != nil {
		return s, err
	}
	s.PristineTree = filepath.Join(dir, "pristine-tree")
	if err := copyTree(s.Repo, s.PristineTree, false); err != nil {
		return s, err
	}
	hdir, err := run(repo, GoEnv(), "go", "list", "-m", "-f", "{{.Dir}}", HelpersMod)
	if err != nil {
		return s, err
	}
	hdir = strings.TrimSpace(hdir)
	if err := copyTree(hdir, s.Helpers, true); err != nil {
		return s, err
	}
	if err := copyTree(filepath.Join(VerifDir(), "sim"), s.Sim, true); err != nil {
		return s, err
	}
	wire := "\nrequire verifsim v0.0.0\nreplace verifsim => ../sim\n"
	if err := appendFile(filepath.Join(s.Repo, "go.mod"), wire+"replace "+HelpersMod+" => ../helpers\n"); err != nil {
		return s, err
	}
	if err := appendFile(filepath.Join(s.Helpers, "go.mod"), wire); err != nil {
		return s, err
	}
	s.BuildS = time.Since(t0).Seconds()
	return s, nil
}

// Buildsim prepares engine 1: T1+T2 on the working tree, T1 on the runtime module, harness
// main added to package main, worker binary built.
func Buildsim(repo string) (*Scratch, error) { return BuildsimOpt(repo, false) }

// BuildsimOpt: with raceIfConcurrent the worker is a race-detector build when the tree contains go
// statements (used by C12: unsynchronised concurrency in the build process is a fault waiting to
// happen; the other checks keep the plain build, whose timing is the realistic one).
func BuildsimOpt(repo string, raceIfConcurrent bool) (*Scratch, error) {
	t0 := time.Now()
	s, err := Base(repo)
	if err != nil {
		return s, err
	}
	s.Pristine = filepath.Join(s.Dir, "pristine")
	if err := copyTree(filepath.Join(s.Repo, "internal", "gontainer"), filepath.Join(s.Pristine, "internal", "gontainer"), false); err != nil {
		return s, err
	}
	s.HelpersRep, err = instr.Run(instr.Options{Dir: s.Helpers, MapRange: true, Sync: true, SkipBroken: true, Env: GoEnv()})
	if err != nil {
		return s, fmt.Errorf("instrumenting runtime module: %w", err)
	}
	// goroutines the tool itself starts (worker pools, background formatting) run as tasks of the seeded
	// scheduler: its sync primitives and channel operations are rewritten like those of generated containers
	s.RepoRep, err = instr.Run(instr.Options{Dir: s.Repo, MapRange: true, World: true, Sync: true, Conc: true, RenameMain: "origMain", Env: GoEnv()})
	if err != nil {
		return s, fmt.Errorf("instrumenting working tree: %w", err)
	}
	harness := `package main

import "verifsim/bsim"

func main() {
	bsim.WorkerMain(bsim.Target{
		Main: origMain,
		SetBuild: func(v, c, d, dirty string) { version, commit, date, isGitDirty = v, c, d, dirty },
	})
}
`
	if err := os.WriteFile(filepath.Join(s.Repo, "zz_verifsim_main.go"), []byte(harness), 0644); err != nil {
		return s, err
	}
	s.Worker = filepath.Join(s.Dir, "worker")
	args := []string{"build", "-o", s.Worker}
	if raceIfConcurrent && len(s.RepoRep.GoStmts) > 0 {
		// the build process has concurrency of its own, which the simulator does not schedule: at
		// least let the race detector watch it
		args = append(args, "-race")
		s.WorkerRace = true
	}
	if os.Getenv("VERIF_COVER") != "" {
		// reach measurement (tools/reach.sh): statement coverage of the working tree's own packages
		// under the simulated worlds; the workers inherit GOCOVERDIR
		args = append(args, "-cover", "-coverpkg=github.com/gontainer/gontainer/...")
	}
	args = append(args, ".")
	if _, err := run(s.Repo, GoEnv(), "go", args...); err != nil {
		return s, fmt.Errorf("building instrumented worker: %w", err)
	}
	s.BuildS = time.Since(t0).Seconds()
	return s, nil
}

// RebuildWorker rebuilds the worker after the scratch tree changed (C19 generation 2). The
// regenerated container file gets the same seams as the checked-in one had.
func RebuildWorker(s *Scratch) error {
	if _, err := instr.Run(instr.Options{Dir: s.Repo, Patterns: []string{"./internal/gontainer"}, MapRange: true, World: true, Env: GoEnv()}); err != nil {
		return fmt.Errorf("instrumenting regenerated file: %w", err)
	}
	if _, err := run(s.Repo, GoEnv(), "go", "build", "-o", s.Worker, "."); err != nil {
		return err
	}
	return nil
}

// ProbeItem is one generated container to link into the probe.
type ProbeItem struct {
	Name  string
	CType string
	CCtor string
}

// Probe assembles and builds the engine-2 probe: fixture package, the generated containers of
// gendir (rewritten: map ranges, world calls, sync -> simsync, a yield before every statement),
// the runtime module (map ranges, sync -> simsync) and the scheduler. Packages that do not
// compile are returned in broken (name -> first error) and left out.
func Probe(s *Scratch, gendir string, items []ProbeItem, race bool) (bin string, broken map[string]string, rep *instr.Report, err error) {
	pdir := filepath.Join(s.Dir, "probe")
	_ = os.RemoveAll(pdir)
	if err = copyTree(filepath.Join(VerifDir(), "probe"), pdir, true); err != nil {
		return
	}
	if err = appendFile(filepath.Join(pdir, "go.mod"), "\nreplace "+HelpersMod+" => ../helpers\n"); err != nil {
		return
	}
	for _, it := range items {
		src := filepath.Join(gendir, it.Name, "container.go")
		if _, e := os.Stat(src); e != nil {
			continue
		}
		d := filepath.Join(pdir, "gen", it.Name)
		if err = os.MkdirAll(d, 0755); err != nil {
			return
		}
		b, _ := os.ReadFile(src)
		if err = os.WriteFile(filepath.Join(d, "container.go"), b, 0644); err != nil {
			return
		}
		cfg, _ := os.ReadFile(filepath.Join(gendir, it.Name, "cfg.json"))
		reg := fmt.Sprintf("package %s\n\nimport \"verifprobe/rsim\"\n\nfunc init() {\n\trsim.Register(%q, func() rsim.Container { return %s() }, %q)\n}\n", it.Name, it.Name, it.CCtor, string(cfg))
		if err = os.WriteFile(filepath.Join(d, "reg.go"), []byte(reg), 0644); err != nil {
			return
		}
	}
	rep, err = instr.Run(instr.Options{Dir: pdir, Patterns: []string{"./gen/..."}, MapRange: true, World: true, Sync: true, Yield: true, SkipBroken: true, Env: GoEnv(),
		OnlyFiles: func(p string) bool { return strings.HasSuffix(p, "container.go") }})
	if err != nil {
		err = fmt.Errorf("instrumenting generated containers: %w", err)
		return
	}
	broken = map[string]string{}
	for pkg, errs := range rep.Broken {
		name := filepath.Base(pkg)
		broken[name] = strings.Join(errs, "\n")
		_ = os.RemoveAll(filepath.Join(pdir, "gen", name))
	}
	var imports []string
	for _, it := range items {
		if _, e := os.Stat(filepath.Join(pdir, "gen", it.Name, "container.go")); e == nil {
			imports = append(imports, fmt.Sprintf("\t_ \"verifprobe/gen/%s\"", it.Name))
		}
	}
	main := "package main\n\nimport (\n\t\"verifprobe/rsim\"\n" + strings.Join(imports, "\n") + "\n)\n\nfunc main() { rsim.Main() }\n"
	if err = os.WriteFile(filepath.Join(pdir, "main.go"), []byte(main), 0644); err != nil {
		return
	}
	bin = filepath.Join(s.Dir, "probe.bin")
	args := []string{"build", "-o", bin}
	if race {
		args = append(args, "-race")
	}
	args = append(args, ".")
	if _, err = run(pdir, GoEnv(), "go", args...); err != nil {
		err = fmt.Errorf("building the probe: %w", err)
	}
	return
}
