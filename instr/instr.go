// Package instr inserts the simulator's seams into a scratch copy of a Go module by
// type-directed source rewriting (DESIGN.md 3.1):
//
//	T1  every range over a map        -> iteration over simrt.MapOrder(m, site)
//	T2  world calls (os, filepath, ioutil, time, math/rand, crypto/rand, fmt.Print*) -> simrt
//	T3  sync.{Mutex,RWMutex,Once}     -> simsync types                    (engine 2 only)
//	T4  a sched.Yield before every statement of every function            (generated files only)
//
// The rewrite is derived from whatever the working tree contains now, so a change that adds
// a new unsorted iteration or a new file operation is instrumented like the existing ones.
package instr

import (
	"bytes"
	"fmt"
	"go/ast"
	"go/format"
	"go/token"
	"go/types"
	"os"
	"sort"
	"strconv"
	"strings"

	"golang.org/x/tools/go/ast/astutil"
	"golang.org/x/tools/go/packages"
)

type Options struct {
	Dir        string   // module directory to load and rewrite in place
	Patterns   []string // default ./...
	MapRange   bool
	World      bool
	Sync       bool
	Yield      bool
	Conc       bool     // goroutines and channel operations of the rewritten code become tasks / polls of the scheduler (implied by Yield)
	RenameMain string   // if set, func main of package main is renamed to this
	Env        []string // extra environment for the go command
	OnlyFiles  func(path string) bool
	SkipBroken bool // packages that fail to load are left untouched instead of failing the run
}

type Report struct {
	Packages       int
	Files          int
	MapSites       []string       // site ids of rewritten map ranges
	WorldCalls     map[string]int // "os.ReadFile" -> count rewritten
	Uncontrolled   map[string]int // world-ish calls left alone (not implemented by simrt)
	SyncRewrites   int
	Yields         int
	PointerKeyMaps []string
	Broken         map[string][]string // packages that did not type-check (SkipBroken): path -> errors
	ConcRewrites   int                 // go statements, selects, channel sends/receives rewritten for the scheduler (generated code)
	GoStmts        []string            // `go` statements in the rewritten packages: concurrency the simulator does not schedule
}

const (
	simrtPath   = "verifsim/simrt"
	simrtName   = "simrt__"
	simsyncPath = "verifsim/simsync"
	simsyncName = "simsync__"
	schedPath   = "verifsim/sched"
	schedName   = "sched__"
)

var worldTable = map[string]map[string]string{
	"os": {
		"ReadFile": "ReadFile", "WriteFile": "WriteFile", "Open": "Open", "OpenFile": "OpenFile", "Create": "Create",
		"CreateTemp": "CreateTemp", "Rename": "Rename", "Remove": "Remove", "RemoveAll": "RemoveAll", "Stat": "Stat",
		"Lstat": "Lstat", "Mkdir": "Mkdir", "MkdirAll": "MkdirAll", "MkdirTemp": "MkdirTemp", "ReadDir": "ReadDir",
		"Chmod": "Chmod", "Truncate": "Truncate", "Getwd": "Getwd", "Chdir": "Chdir", "Getenv": "Getenv",
		"LookupEnv": "LookupEnv", "Environ": "Environ", "ExpandEnv": "ExpandEnv", "Setenv": "Setenv", "Unsetenv": "Unsetenv",
		"Getpid": "Getpid", "Getppid": "Getppid", "Getuid": "Getuid", "Geteuid": "Geteuid", "Getgid": "Getgid",
		"Hostname": "Hostname", "Exit": "Exit", "Stdout": "Stdout", "Stderr": "Stderr", "Stdin": "Stdin",
		"TempDir": "TempDir", "UserHomeDir": "UserHomeDir", "UserCacheDir": "UserCacheDir", "UserConfigDir": "UserConfigDir",
		"Executable": "Executable", "Link": "Link", "Symlink": "Symlink", "Readlink": "Readlink", "Chown": "Chown",
		"File": "File",
	},
	"path/filepath": {"Glob": "Glob", "Abs": "Abs", "Walk": "Walk", "WalkDir": "WalkDir", "EvalSymlinks": "EvalSymlinks"},
	"io/ioutil":     {"ReadFile": "ReadFile", "WriteFile": "WriteFile", "TempFile": "CreateTemp", "TempDir": "MkdirTemp"},
	"time":          {"Now": "Now", "Since": "Since", "Until": "Until", "Sleep": "Sleep", "After": "After"},
	"context":       {"WithTimeout": "WithTimeout", "WithDeadline": "WithDeadline"},
	"math/rand": {"Int": "RandInt", "Intn": "RandIntn", "Int63": "RandInt63", "Int63n": "RandInt63n", "Int31": "RandInt31",
		"Int31n": "RandInt31n", "Uint32": "RandUint32", "Uint64": "RandUint64", "Float64": "RandFloat64", "Seed": "RandSeed",
		"Perm": "RandPerm", "Shuffle": "RandShuffle", "Read": "RandRead"},
	"crypto/rand":           {"Read": "RandRead"},
	"runtime":               {"NumCPU": "NumCPU", "GOMAXPROCS": "GOMAXPROCS"},
	"os/signal":             {"Notify": "SignalNotify", "NotifyContext": "SignalNotifyContext", "Stop": "SignalStop", "Ignore": "SignalIgnore", "Reset": "SignalReset"},
	"syscall":               {"Flock": "Flock"},
	"golang.org/x/sys/unix": {"Flock": "Flock"},
	"os/user":               {"Current": "UserCurrent"},
	"fmt":                   {"Print": "Print", "Println": "Println", "Printf": "Printf"},
}

// world-ish selectors we do not implement: counted, left alone
var uncontrolledTable = map[string]map[string]bool{
	"os":      {"Chtimes": true, "DirFS": true, "Pipe": true, "StartProcess": true, "FindProcess": true, "Lchown": true, "ReadLink": true, "CopyFS": true, "NewFile": true},
	"os/exec": {"Command": true, "CommandContext": true, "LookPath": true},
	"time":    {"Tick": true, "NewTimer": true, "NewTicker": true, "AfterFunc": true},
	"net":     {"Dial": true, "Listen": true},
	"syscall": {"Open": true, "Write": true, "Read": true, "Getenv": true, "Rename": true, "Unlink": true},
	"math/rand/v2": {"Int": true, "IntN": true, "N": true, "Float64": true, "Perm": true, "Shuffle": true, "Uint64": true, "Uint32": true,
		"Int64": true, "Int32": true, "Int64N": true, "Int32N": true, "UintN": true},
}

var syncTable = map[string]string{"Mutex": "Mutex", "RWMutex": "RWMutex", "Once": "Once", "WaitGroup": "WaitGroup"}

func Run(o Options) (*Report, error) {
	rep := &Report{WorldCalls: map[string]int{}, Uncontrolled: map[string]int{}}
	pats := o.Patterns
	if len(pats) == 0 {
		pats = []string{"./..."}
	}
	cfg := &packages.Config{
		Mode: packages.NeedName | packages.NeedFiles | packages.NeedCompiledGoFiles | packages.NeedSyntax |
			packages.NeedTypes | packages.NeedTypesInfo | packages.NeedImports | packages.NeedDeps | packages.NeedModule,
		Dir:   o.Dir,
		Env:   append(os.Environ(), o.Env...),
		Tests: false,
	}
	pkgs, err := packages.Load(cfg, pats...)
	if err != nil {
		return nil, err
	}
	var loadErrs []string
	broken := map[string]bool{}
	for _, p := range pkgs {
		for _, e := range p.Errors {
			if o.SkipBroken {
				broken[p.PkgPath] = true
				if rep.Broken == nil {
					rep.Broken = map[string][]string{}
				}
				rep.Broken[p.PkgPath] = append(rep.Broken[p.PkgPath], e.Error())
				continue
			}
			loadErrs = append(loadErrs, e.Error())
		}
	}
	if len(loadErrs) > 0 {
		return nil, fmt.Errorf("load errors in %s: %s", o.Dir, strings.Join(loadErrs, "; "))
	}
	sort.Slice(pkgs, func(i, j int) bool { return pkgs[i].PkgPath < pkgs[j].PkgPath })
	for _, p := range pkgs {
		if p.Module == nil || !p.Module.Main || broken[p.PkgPath] {
			continue
		}
		rep.Packages++
		for i, f := range p.Syntax {
			path := p.CompiledGoFiles[i]
			if strings.HasSuffix(path, "_test.go") {
				continue
			}
			if o.OnlyFiles != nil && !o.OnlyFiles(path) {
				continue
			}
			changed, err := rewriteFile(o, rep, p, f)
			if err != nil {
				return nil, fmt.Errorf("%s: %w", path, err)
			}
			if !changed {
				continue
			}
			var buf bytes.Buffer
			if err := format.Node(&buf, p.Fset, f); err != nil {
				return nil, fmt.Errorf("%s: print: %w", path, err)
			}
			if err := os.WriteFile(path, buf.Bytes(), 0644); err != nil {
				return nil, err
			}
			rep.Files++
		}
	}
	sort.Strings(rep.MapSites)
	return rep, nil
}

func isMap(t types.Type) (isMap bool, ptrKey bool) {
	if t == nil {
		return false, false
	}
	u := t.Underlying()
	if m, ok := u.(*types.Map); ok {
		return true, keyIsPointer(m.Key())
	}
	// type parameter: all terms of the constraint must be maps
	if tp, ok := t.(*types.TypeParam); ok {
		iface, ok := tp.Constraint().Underlying().(*types.Interface)
		if !ok {
			return false, false
		}
		all := false
		for i := 0; i < iface.NumEmbeddeds(); i++ {
			switch e := iface.EmbeddedType(i).(type) {
			case *types.Union:
				for j := 0; j < e.Len(); j++ {
					if _, ok := e.Term(j).Type().Underlying().(*types.Map); ok {
						all = true
					} else {
						return false, false
					}
				}
			default:
				if _, ok := e.Underlying().(*types.Map); ok {
					all = true
				}
			}
		}
		return all, false
	}
	return false, false
}

func keyIsPointer(k types.Type) bool {
	switch k.Underlying().(type) {
	case *types.Pointer, *types.Chan:
		return true
	}
	return false
}

func funcName(d *ast.FuncDecl) string {
	n := d.Name.Name
	if d.Recv != nil && len(d.Recv.List) > 0 {
		t := d.Recv.List[0].Type
		for {
			switch x := t.(type) {
			case *ast.StarExpr:
				t = x.X
				continue
			case *ast.IndexExpr:
				t = x.X
				continue
			case *ast.IndexListExpr:
				t = x.X
				continue
			}
			break
		}
		if id, ok := t.(*ast.Ident); ok {
			n = id.Name + "." + n
		}
	}
	return n
}

func sel(pkg, name string) *ast.SelectorExpr {
	return &ast.SelectorExpr{X: ast.NewIdent(pkg), Sel: ast.NewIdent(name)}
}

func rewriteFile(o Options, rep *Report, p *packages.Package, f *ast.File) (bool, error) {
	changed := false
	needSimrt, needSync, needSched := false, false, false
	info := p.TypesInfo
	uniq := 0

	// ---- T1: map ranges, with site ids by enclosing function + ordinal
	if o.MapRange {
		doFunc := func(name string, body ast.Node) {
			ord := 0
			ast.Inspect(body, func(n ast.Node) bool {
				rs, ok := n.(*ast.RangeStmt)
				if !ok {
					return true
				}
				m, ptr := isMap(info.TypeOf(rs.X))
				if !m {
					return true
				}
				site := p.PkgPath + "." + name + "#" + strconv.Itoa(ord)
				ord++
				if ptr {
					rep.PointerKeyMaps = append(rep.PointerKeyMaps, site)
					return true
				}
				uniq++
				rewriteRange(rs, site, uniq)
				rep.MapSites = append(rep.MapSites, site)
				needSimrt = true
				changed = true
				return true
			})
		}
		for _, d := range f.Decls {
			switch x := d.(type) {
			case *ast.FuncDecl:
				if x.Body != nil {
					doFunc(funcName(x), x.Body)
				}
			case *ast.GenDecl:
				doFunc("init", x)
			}
		}
	}

	for _, d := range f.Decls {
		if fd, ok := d.(*ast.FuncDecl); ok && fd.Body != nil {
			ast.Inspect(fd.Body, func(n ast.Node) bool {
				if _, ok := n.(*ast.GoStmt); ok {
					rep.GoStmts = append(rep.GoStmts, p.PkgPath+"."+funcName(fd))
				}
				return true
			})
		}
	}

	// ---- T2 / T3: selector rewriting
	remaining := map[*types.PkgName]int{} // uses left per import
	rewritten := map[*types.PkgName]int{}
	if o.World || o.Sync {
		astutil.Apply(f, func(c *astutil.Cursor) bool {
			se, ok := c.Node().(*ast.SelectorExpr)
			if !ok {
				return true
			}
			id, ok := se.X.(*ast.Ident)
			if !ok {
				return true
			}
			pn, ok := info.Uses[id].(*types.PkgName)
			if !ok {
				return true
			}
			path := pn.Imported().Path()
			if o.World {
				if t, ok := worldTable[path]; ok {
					if nn, ok := t[se.Sel.Name]; ok {
						c.Replace(sel(simrtName, nn))
						rep.WorldCalls[path+"."+se.Sel.Name]++
						rewritten[pn]++
						needSimrt = true
						changed = true
						return false
					}
				}
				if t, ok := uncontrolledTable[path]; ok && t[se.Sel.Name] {
					rep.Uncontrolled[path+"."+se.Sel.Name]++
				}
			}
			if o.Sync && path == "sync" {
				if nn, ok := syncTable[se.Sel.Name]; ok {
					c.Replace(sel(simsyncName, nn))
					rep.SyncRewrites++
					rewritten[pn]++
					needSync = true
					changed = true
					return false
				}
			}
			remaining[pn]++
			return true
		}, nil)
	}

	// ---- rename main
	if o.RenameMain != "" && p.Name == "main" {
		for _, d := range f.Decls {
			if fd, ok := d.(*ast.FuncDecl); ok && fd.Recv == nil && fd.Name.Name == "main" {
				fd.Name.Name = o.RenameMain
				changed = true
			}
		}
	}

	// ---- T5: concurrency of the code under simulation (generated containers): goroutines it starts
	// become tasks of the scheduler, channel operations that would block keep the task schedulable
	if o.Yield || o.Conc {
		if k := rewriteConcurrency(f, info); k > 0 {
			rep.ConcRewrites += k
			needSched = true
			changed = true
		}
	}

	// ---- T4: yields
	if o.Yield {
		n := 0
		for _, d := range f.Decls {
			fd, ok := d.(*ast.FuncDecl)
			if !ok || fd.Body == nil || (fd.Recv == nil && fd.Name.Name == "init") {
				continue
			}
			n += insertYields(fd.Body, p.PkgPath+"."+funcName(fd))
		}
		if n > 0 {
			rep.Yields += n
			needSched = true
			changed = true
		}
	}

	if needSimrt {
		astutil.AddNamedImport(p.Fset, f, simrtName, simrtPath)
	}
	if needSync {
		astutil.AddNamedImport(p.Fset, f, simsyncName, simsyncPath)
	}
	if needSched {
		astutil.AddNamedImport(p.Fset, f, schedName, schedPath)
	}
	// drop imports that lost their last use
	for pn, n := range rewritten {
		if n > 0 && remaining[pn] == 0 {
			name := pn.Name()
			path := pn.Imported().Path()
			if !astutil.DeleteNamedImport(p.Fset, f, name, path) {
				astutil.DeleteImport(p.Fset, f, path)
			}
		}
	}
	return changed, nil
}

// rewriteRange turns `for K, V := range X { B }` into
//
//	for _, e := range simrt.MapOrder(X, site) { V, ok := e.Get(); if !ok { continue }; K := e.K; B }
func rewriteRange(rs *ast.RangeStmt, site string, n int) {
	call := &ast.CallExpr{
		Fun:  sel(simrtName, "MapOrder"),
		Args: []ast.Expr{rs.X, &ast.BasicLit{Kind: token.STRING, Value: strconv.Quote(site)}},
	}
	blank := func(e ast.Expr) bool {
		if e == nil {
			return true
		}
		id, ok := e.(*ast.Ident)
		return ok && id.Name == "_"
	}
	key, val, tok := rs.Key, rs.Value, rs.Tok
	rs.X = call
	if blank(key) && blank(val) {
		// only the number of iterations matters
		rs.Key, rs.Value, rs.Tok = nil, nil, token.ILLEGAL
		return
	}
	e := ast.NewIdent("e__" + strconv.Itoa(n))
	ok := ast.NewIdent("ok__" + strconv.Itoa(n))
	tmp := ast.NewIdent("v__" + strconv.Itoa(n))
	get := &ast.CallExpr{Fun: &ast.SelectorExpr{X: e, Sel: ast.NewIdent("Get")}}
	cont := &ast.IfStmt{
		Cond: &ast.UnaryExpr{Op: token.NOT, X: ok},
		Body: &ast.BlockStmt{List: []ast.Stmt{&ast.BranchStmt{Tok: token.CONTINUE}}},
	}
	var pro []ast.Stmt
	ekey := &ast.SelectorExpr{X: e, Sel: ast.NewIdent("K")}
	if tok == token.DEFINE {
		if !blank(val) {
			pro = append(pro, &ast.AssignStmt{Lhs: []ast.Expr{val, ok}, Tok: token.DEFINE, Rhs: []ast.Expr{get}}, cont)
		} else {
			pro = append(pro, &ast.AssignStmt{Lhs: []ast.Expr{ast.NewIdent("_"), ok}, Tok: token.DEFINE, Rhs: []ast.Expr{get}}, cont)
		}
		if !blank(key) {
			pro = append(pro, &ast.AssignStmt{Lhs: []ast.Expr{key}, Tok: token.DEFINE, Rhs: []ast.Expr{ekey}})
		}
	} else {
		pro = append(pro, &ast.AssignStmt{Lhs: []ast.Expr{tmp, ok}, Tok: token.DEFINE, Rhs: []ast.Expr{get}}, cont)
		if !blank(key) {
			pro = append(pro, &ast.AssignStmt{Lhs: []ast.Expr{key}, Tok: token.ASSIGN, Rhs: []ast.Expr{ekey}})
		}
		if !blank(val) {
			pro = append(pro, &ast.AssignStmt{Lhs: []ast.Expr{val}, Tok: token.ASSIGN, Rhs: []ast.Expr{tmp}})
		} else {
			pro = append(pro, &ast.AssignStmt{Lhs: []ast.Expr{ast.NewIdent("_")}, Tok: token.ASSIGN, Rhs: []ast.Expr{tmp}})
		}
	}
	rs.Key, rs.Value, rs.Tok = ast.NewIdent("_"), e, token.DEFINE
	rs.Body.List = append(pro, rs.Body.List...)
}

// rewriteConcurrency (generated code only):
//
//	go f(a, b)                  ->  { a0, a1 := a, b; sched.Go(func() { f(a0, a1) }) }      (go func(){..}() -> sched.Go(func(){..}))
//	select { cases } (no default) ->  L: select { cases; default: sched.Poll(); goto L }
//	<-ch   (outside a select's comm clause)  ->  sched.Recv(ch)      v, ok := <-ch -> sched.Recv2(ch)
//	ch <- v                     ->  sched.Send(ch, v)
//	for v := range ch { B }     ->  for { v, ok := sched.Recv2(ch); if !ok { break }; B }
func rewriteConcurrency(f *ast.File, info *types.Info) int {
	n := 0
	label := 0
	isChan := func(e ast.Expr) bool {
		t := info.TypeOf(e)
		if t == nil {
			return false
		}
		_, ok := t.Underlying().(*types.Chan)
		return ok
	}
	// comm clause statements must stay as they are: remember them
	comm := map[ast.Node]bool{}
	ast.Inspect(f, func(nd ast.Node) bool {
		if cc, ok := nd.(*ast.CommClause); ok && cc.Comm != nil {
			comm[cc.Comm] = true
			switch c := cc.Comm.(type) {
			case *ast.ExprStmt:
				comm[c.X] = true
			case *ast.AssignStmt:
				for _, r := range c.Rhs {
					comm[r] = true
				}
			}
		}
		return true
	})
	astutil.Apply(f, func(c *astutil.Cursor) bool {
		return !comm[c.Node()] || true
	}, func(c *astutil.Cursor) bool {
		switch x := c.Node().(type) {
		case *ast.GoStmt:
			call := x.Call
			if fl, ok := call.Fun.(*ast.FuncLit); ok && len(call.Args) == 0 {
				c.Replace(&ast.ExprStmt{X: &ast.CallExpr{Fun: sel(schedName, "Go"), Args: []ast.Expr{fl}}})
				n++
				return true
			}
			var lhs, tmps []ast.Expr
			for i := range call.Args {
				id := ast.NewIdent("goarg__" + strconv.Itoa(label) + "_" + strconv.Itoa(i))
				lhs = append(lhs, id)
				tmps = append(tmps, id)
			}
			label++
			var stmts []ast.Stmt
			if len(call.Args) > 0 && !call.Ellipsis.IsValid() {
				stmts = append(stmts, &ast.AssignStmt{Lhs: lhs, Tok: token.DEFINE, Rhs: call.Args})
				call = &ast.CallExpr{Fun: call.Fun, Args: tmps}
			}
			body := &ast.BlockStmt{List: []ast.Stmt{&ast.ExprStmt{X: call}}}
			stmts = append(stmts, &ast.ExprStmt{X: &ast.CallExpr{Fun: sel(schedName, "Go"), Args: []ast.Expr{&ast.FuncLit{Type: &ast.FuncType{Params: &ast.FieldList{}}, Body: body}}}})
			c.Replace(&ast.BlockStmt{List: stmts})
			n++
		case *ast.SelectStmt:
			hasDefault := false
			for _, cl := range x.Body.List {
				if cc, ok := cl.(*ast.CommClause); ok && cc.Comm == nil {
					hasDefault = true
				}
			}
			if hasDefault {
				return true
			}
			if _, labelled := c.Parent().(*ast.LabeledStmt); labelled {
				return true // a labelled select (target of a break): left alone
			}
			label++
			l := ast.NewIdent("sel__" + strconv.Itoa(label))
			x.Body.List = append(x.Body.List, &ast.CommClause{Body: []ast.Stmt{
				&ast.ExprStmt{X: &ast.CallExpr{Fun: sel(schedName, "Poll"), Args: []ast.Expr{&ast.BasicLit{Kind: token.STRING, Value: strconv.Quote("select")}}}},
				&ast.BranchStmt{Tok: token.GOTO, Label: l},
			}})
			c.Replace(&ast.LabeledStmt{Label: l, Stmt: x})
			n++
		case *ast.SendStmt:
			if comm[x] {
				return true
			}
			c.Replace(&ast.ExprStmt{X: &ast.CallExpr{Fun: sel(schedName, "Send"), Args: []ast.Expr{x.Chan, x.Value}}})
			n++
		case *ast.UnaryExpr:
			if x.Op != token.ARROW || comm[x] {
				return true
			}
			fn := "Recv"
			if as, ok := c.Parent().(*ast.AssignStmt); ok && len(as.Lhs) == 2 && len(as.Rhs) == 1 {
				fn = "Recv2"
			}
			if vs, ok := c.Parent().(*ast.ValueSpec); ok && len(vs.Names) == 2 && len(vs.Values) == 1 {
				fn = "Recv2"
			}
			c.Replace(&ast.CallExpr{Fun: sel(schedName, fn), Args: []ast.Expr{x.X}})
			n++
		case *ast.RangeStmt:
			if !isChan(x.X) {
				return true
			}
			label++
			ok := ast.NewIdent("ok__ch" + strconv.Itoa(label))
			var key ast.Expr = ast.NewIdent("_")
			tok := token.DEFINE
			if x.Key != nil {
				key = x.Key
				if x.Tok == token.ASSIGN {
					// v, ok = ...: ok must exist
					tok = token.DEFINE
					tmp := ast.NewIdent("v__ch" + strconv.Itoa(label))
					recv := &ast.AssignStmt{Lhs: []ast.Expr{tmp, ok}, Tok: token.DEFINE, Rhs: []ast.Expr{&ast.CallExpr{Fun: sel(schedName, "Recv2"), Args: []ast.Expr{x.X}}}}
					brk := &ast.IfStmt{Cond: &ast.UnaryExpr{Op: token.NOT, X: ok}, Body: &ast.BlockStmt{List: []ast.Stmt{&ast.BranchStmt{Tok: token.BREAK}}}}
					set := &ast.AssignStmt{Lhs: []ast.Expr{key}, Tok: token.ASSIGN, Rhs: []ast.Expr{tmp}}
					x.Body.List = append([]ast.Stmt{recv, brk, set}, x.Body.List...)
					c.Replace(&ast.ForStmt{Body: x.Body})
					n++
					return true
				}
			}
			recv := &ast.AssignStmt{Lhs: []ast.Expr{key, ok}, Tok: tok, Rhs: []ast.Expr{&ast.CallExpr{Fun: sel(schedName, "Recv2"), Args: []ast.Expr{x.X}}}}
			brk := &ast.IfStmt{Cond: &ast.UnaryExpr{Op: token.NOT, X: ok}, Body: &ast.BlockStmt{List: []ast.Stmt{&ast.BranchStmt{Tok: token.BREAK}}}}
			x.Body.List = append([]ast.Stmt{recv, brk}, x.Body.List...)
			c.Replace(&ast.ForStmt{Body: x.Body})
			n++
		}
		return true
	})
	return n
}

func yieldStmt(site string) ast.Stmt {
	return &ast.ExprStmt{X: &ast.CallExpr{
		Fun:  sel(schedName, "Yield"),
		Args: []ast.Expr{&ast.BasicLit{Kind: token.STRING, Value: strconv.Quote(site)}},
	}}
}

func insertYields(body *ast.BlockStmt, fn string) int {
	n := 0
	var doList func(list []ast.Stmt) []ast.Stmt
	var doStmt func(s ast.Stmt)
	doList = func(list []ast.Stmt) []ast.Stmt {
		out := make([]ast.Stmt, 0, 2*len(list))
		for _, s := range list {
			n++
			out = append(out, yieldStmt(fn+":"+strconv.Itoa(n)))
			doStmt(s)
			out = append(out, s)
		}
		return out
	}
	doStmt = func(s ast.Stmt) {
		switch x := s.(type) {
		case *ast.BlockStmt:
			x.List = doList(x.List)
		case *ast.IfStmt:
			x.Body.List = doList(x.Body.List)
			if x.Else != nil {
				doStmt(x.Else)
			}
		case *ast.ForStmt:
			x.Body.List = doList(x.Body.List)
		case *ast.RangeStmt:
			x.Body.List = doList(x.Body.List)
		case *ast.SwitchStmt:
			for _, c := range x.Body.List {
				cc := c.(*ast.CaseClause)
				cc.Body = doList(cc.Body)
			}
		case *ast.TypeSwitchStmt:
			for _, c := range x.Body.List {
				cc := c.(*ast.CaseClause)
				cc.Body = doList(cc.Body)
			}
		case *ast.LabeledStmt:
			doStmt(x.Stmt)
		case *ast.SelectStmt:
			for _, c := range x.Body.List {
				cc := c.(*ast.CommClause)
				cc.Body = doList(cc.Body)
			}
		}
		// function literals inside the statement (closures passed to the runtime)
		ast.Inspect(s, func(nd ast.Node) bool {
			if fl, ok := nd.(*ast.FuncLit); ok && fl.Body != nil {
				if !alreadyYielded(fl.Body) {
					fl.Body.List = doList(fl.Body.List)
				}
				return false
			}
			return true
		})
	}
	body.List = doList(body.List)
	return n
}

func alreadyYielded(b *ast.BlockStmt) bool {
	if len(b.List) == 0 {
		return false
	}
	es, ok := b.List[0].(*ast.ExprStmt)
	if !ok {
		return false
	}
	ce, ok := es.X.(*ast.CallExpr)
	if !ok {
		return false
	}
	se, ok := ce.Fun.(*ast.SelectorExpr)
	if !ok {
		return false
	}
	id, ok := se.X.(*ast.Ident)
	return ok && id.Name == schedName
}
