package main

import (
	"bytes"
	"encoding/json"
	"fmt"
	"os"
	"os/exec"
	"path/filepath"
	"sort"
	"strings"
	"sync"
	"time"

	"verif/prep"
	"verifsim/bsim"
)

type tierSpec struct {
	cases int
	maxS  float64
}

var engine1Tiers = map[string]map[string]tierSpec{
	"C08": {"quick": {3200, 150}, "thorough": {60000, 1500}},
	"C10": {"quick": {1000, 180}, "thorough": {16000, 1800}},
	"C12": {"quick": {8000, 150}, "thorough": {160000, 1500}},
	"C19": {"quick": {960, 120}, "thorough": {16000, 900}},
}

type merged struct {
	stats      *bsim.Stats
	distinct   map[string]bool
	violations []*bsim.Violation
	done       int
	aborted    []string
	eventLogs  []string
	hangs      int
}

func mergeStats(dst, src *bsim.Stats) {
	add := func(d, s map[string]int) {
		for k, v := range s {
			d[k] += v
		}
	}
	dst.Worlds += src.Worlds
	dst.Builds += src.Builds
	dst.Panics += src.Panics
	dst.Hangs += src.Hangs
	dst.SlowBuilds += src.SlowBuilds
	dst.SimOps += src.SimOps
	dst.SimMs += src.SimMs
	if src.MaxMs > dst.MaxMs {
		dst.MaxMs = src.MaxMs
	}
	add(dst.Classes, src.Classes)
	add(dst.Exit, src.Exit)
	add(dst.Dims, src.Dims)
	add(dst.SitesMulti, src.SitesMulti)
	add(dst.SitesPerm, src.SitesPerm)
	add(dst.FaultsFired, src.FaultsFired)
	add(dst.OpsSeen, src.OpsSeen)
	add(dst.WorldUse, src.WorldUse)
	add(dst.Probes, src.Probes)
	for _, s := range src.Samples {
		if len(dst.Samples) < 4 {
			dst.Samples = append(dst.Samples, s)
		}
	}
}

// runWorkers partitions [0,cases) over the workers and runs them to completion.
func runWorkers(s *prep.Scratch, o opts, cases int, maxS float64, extra ...string) *merged {
	m := &merged{stats: bsim.NewStats(), distinct: map[string]bool{}}
	w := o.workers
	if w > cases {
		w = cases
	}
	if w < 1 {
		w = 1
	}
	outDir := filepath.Join(s.Dir, "out")
	_ = os.MkdirAll(outDir, 0755)
	tStart := time.Now()
	var mu sync.Mutex
	var wg sync.WaitGroup
	// interleave indices in chunks so that a wall-clock cut-off still samples every region
	chunk := (cases + w - 1) / w
	for k := 0; k < w; k++ {
		from, to := k*chunk, (k+1)*chunk
		if to > cases {
			to = cases
		}
		if from >= to {
			continue
		}
		wg.Add(1)
		go func(k, from, to int) {
			defer wg.Done()
			isolated := false
			for attempt := 0; from < to && attempt < 20; attempt++ {
				mu.Lock()
				stop := time.Since(tStart).Seconds() > maxS*1.5+60 || m.hangs >= 3
				mu.Unlock()
				if stop {
					return // the exploration budget is used up (or hangs keep coming): report what there is
				}
				out := filepath.Join(outDir, fmt.Sprintf("w%d-%d-%v.json", k, attempt, isolated))
				args := []string{"run", "-prop", o.prop, "-seed", fmt.Sprint(o.seed), "-from", fmt.Sprint(from), "-to", fmt.Sprint(to),
					"-out", out, "-tier", o.tier, "-max-s", fmt.Sprint(maxS)}
				args = append(args, extra...)
				if isolated {
					args = append(args, "-isolate")
				}
				cmd := exec.Command(s.Worker, args...)
				cmd.Dir = s.Dir
				if s.WorkerRace {
					racelog := filepath.Join(outDir, fmt.Sprintf("race-w%d-%d", k, attempt))
					cmd.Env = append(os.Environ(), "VERIFSIM_RACELOG="+racelog, "GORACE=log_path="+racelog+" halt_on_error=0 exitcode=0")
				}
				var eb bytes.Buffer
				cmd.Stdout = &eb
				cmd.Stderr = &eb
				done := make(chan error, 1)
				if err := cmd.Start(); err != nil {
					fatal2("starting worker: %v", err)
				}
				go func() { done <- cmd.Wait() }()
				var err error
				select {
				case err = <-done:
				case <-time.After(time.Duration(maxS*2+600) * time.Second):
					_ = cmd.Process.Kill()
					fatal2("worker %d exceeded its watchdog (%v s); output:\n%s", k, maxS*2+600, eb.String())
				}
				b, rerr := os.ReadFile(out)
				if rerr != nil && !isolated {
					// the worker process died in the middle of a build (Go runtime fatal error, real
					// crash): repeat its range with every build in a process of its own, so that the
					// dying build is observed as such instead of taking the worker with it
					fmt.Printf("note: worker %d died (%v): %s\n      repeating cases %d..%d with one process per build\n", k, err, firstLineWith(eb.String(), "fatal error", "panic:", "signal"), from, to)
					isolated = true
					attempt--
					continue
				}
				if rerr != nil {
					fatal2("worker %d wrote no result (%v, %v); output:\n%s", k, err, rerr, tailStr(eb.String(), 4000))
				}
				var bo bsim.BatchOut
				if jerr := json.Unmarshal(b, &bo); jerr != nil {
					fatal2("worker %d result unreadable: %v", k, jerr)
				}
				mu.Lock()
				mergeStats(m.stats, bo.Stats)
				for _, d := range bo.Distinct {
					m.distinct[d] = true
				}
				m.violations = append(m.violations, bo.Violations...)
				m.done += bo.Done - from
				m.eventLogs = append(m.eventLogs, bo.EventLog...)
				if bo.Aborted != "" {
					m.aborted = append(m.aborted, bo.Aborted)
					if bo.Aborted == "hang" {
						m.hangs++
					}
				}
				mu.Unlock()
				if bo.Aborted == "" {
					return // finished its range or hit the time bound
				}
				from = bo.Done
			}
		}(k, from, to)
	}
	wg.Wait()
	sort.Strings(m.eventLogs)
	return m
}

func realStub() map[string]any {
	return map[string]any{
		"real_code": []string{"all packages of the working tree /repo incl. main.go (rewritten only at map ranges and os/filepath/time/rand/fmt.Print* call sites)",
			"gontainer-helpers runtime module (rewritten only at map ranges)", "yaml.v3", "cobra/pflag", "text/template", "go/format", "x/tools/imports", "gonum graph", "fatih/color"},
		"simulated": []string{"order of every map iteration in /repo and gontainer-helpers code (seeded per site and call)", "directory-listing / glob result order (seeded permutation)",
			"file-system fault layer over a private tmpfs directory: error returns, short reads, torn writes, failed close/rename/create-temp, corrupted read content at exact operation indices",
			"process environment, working directory, build version, clock, random source, pid, hostname (all set from the seed per run)", "process exit (os.Exit unwinds to the harness)", "stdout/stderr (captured)",
			"time: one simulated clock per run; in latency runs a drawn quarter of the file operations takes 0.5-5 s of simulated time; the process's time zone follows the run's $TZ",
			"input file metadata (modification times incl. future ones, permission bits, creation order) and symbolic links in place of input files",
			"concurrent processes: two or three build commands over one directory tree, each a real process running the instrumented tool, parked before every file operation and released one at a time by a coordinator whose choices come from the seed (uniform, short bursts, long bursts)"},
		"not_controlled": []string{"map iteration inside third-party dependencies (yaml, gonum, x/tools, text/template): detected by the same-seed determinism self-test rather than controlled",
			"terminal colour decision of fatih/color (harness has no tty: colour is always off)"},
	}
}

func runEngine1(o opts) int {
	t0 := time.Now()
	spec := engine1Tiers[o.prop][o.tier]
	if o.cases > 0 {
		spec.cases = o.cases
	}
	if o.maxS > 0 {
		spec.maxS = o.maxS
	}
	s, err := prep.BuildsimOpt(o.repo, o.prop == "C12")
	defer s.Cleanup()
	if err != nil {
		fatal2("%v", err)
	}
	fmt.Printf("vcheck %s tier=%s seed=%d cases=%d workers=%d (instrumented build %.1fs; %d map sites in tree, %d in runtime; world calls %v)\n",
		o.prop, o.tier, o.seed, spec.cases, o.workers, s.BuildS, len(s.RepoRep.MapSites), len(s.HelpersRep.MapSites), s.RepoRep.WorldCalls)
	os.Setenv("VERIFSIM_REPO", s.Pristine)
	m := runWorkers(s, o, spec.cases, spec.maxS)
	if o.prop == "C19" {
		gen2(o, s, m, spec)
	}
	code := report(o, s, m, t0)
	return code
}

// gen2 is the second generation of C19: the regenerated file replaces the checked-in one in
// the scratch copy, the tool is rebuilt, and under every schedule its output must equal
// generation 1 again.
func gen2(o opts, s *prep.Scratch, m *merged, spec tierSpec) {
	for _, v := range m.violations {
		if v.Property == "C19" && v.Sig != "failed-regenerate-damaged-checked-in-file" {
			fmt.Println("C19: generation 2 skipped: generation 1 already deviates")
			return
		}
	}
	g1 := filepath.Join(s.Dir, "generation1.go")
	cmd := exec.Command(s.Worker, "selfout", "-out", g1)
	cmd.Dir = s.Dir
	if out, err := cmd.CombinedOutput(); err != nil {
		fatal2("generation 1 could not be produced: %v\n%s", err, out)
	}
	data, err := os.ReadFile(g1)
	if err != nil {
		fatal2("%v", err)
	}
	if err := os.WriteFile(filepath.Join(s.Repo, "internal/gontainer/gontainer.go"), data, 0644); err != nil {
		fatal2("%v", err)
	}
	if err := prep.RebuildWorker(s); err != nil {
		// the regenerated file does not compile into the tool: generation 2 cannot exist
		v := &bsim.Violation{Property: "C19", Sig: "tool-does-not-rebuild-with-regenerated-file", Mode: "c19-build",
			Detail: "the tool cannot be rebuilt with the regenerated internal/gontainer/gontainer.go:\n" + err.Error()}
		m.violations = append(m.violations, v)
		return
	}
	os.Setenv("VERIFSIM_C19_REF", g1)
	defer os.Unsetenv("VERIFSIM_C19_REF")
	n := spec.cases / 2
	if n < 16 {
		n = 16
	}
	oo := o
	oo.seed = o.seed + 1
	m2 := runWorkers(s, oo, n, spec.maxS/2)
	mergeStats(m.stats, m2.stats)
	m.stats.Probes["generation-2-runs"] += m2.stats.Builds
	for d := range m2.distinct {
		m.distinct["gen2|"+d] = true
	}
	m.violations = append(m.violations, m2.violations...)
}

// report writes replay files, confirms them in a fresh process, matches known findings,
// prints the verdict lines and writes the evidence file.
func report(o opts, s *prep.Scratch, m *merged, t0 time.Time) int {
	findings := loadFindings()
	bySig := map[string]*bsim.Violation{}
	var sigs []string
	for _, v := range m.violations {
		if v.Property != o.prop {
			continue
		}
		if old, ok := bySig[v.Sig]; !ok || len(v.Choices) < len(old.Choices) {
			if !ok {
				sigs = append(sigs, v.Sig)
			}
			bySig[v.Sig] = v
		}
	}
	sort.Strings(sigs)
	newViol := 0
	var notReproduced []string
	known := 0
	repDir := filepath.Join(verifDir, "replays")
	_ = os.MkdirAll(repDir, 0755)
	for n, sig := range sigs {
		v := bySig[sig]
		path := filepath.Join(repDir, fmt.Sprintf("%s-%d-%d.json", o.prop, o.seed, n))
		b, _ := json.MarshalIndent(v, "", " ")
		if err := os.WriteFile(path, b, 0644); err != nil {
			fatal2("writing replay: %v", err)
		}
		// replay in a fresh process: must reproduce, otherwise the machinery is at fault
		outp, code := "REPRODUCED (build failure, nothing to execute)", 1
		if v.Mode != "c19-build" {
			outp, code = runReplay(s, path)
		}
		if code == 10 {
			fmt.Printf("NOTE: %s %s not counted: it reproduces only when several builds share one process (state kept in package-level variables of the tool); each real run is a fresh process [replay=%s]\n", o.prop, sig, path)
			m.stats.Probes["in-process-state-artefacts-dropped"]++
			continue
		}
		if code != 1 || !(strings.Contains(outp, "REPRODUCED") || strings.Contains(outp, "NONDETERMINISTIC")) || (strings.Contains(outp, "NOT-REPRODUCED") && !strings.Contains(outp, "NONDETERMINISTIC")) {
			// not believed, never a VIOLATION; if nothing else reproduces either, the check ends with exit 2
			notReproduced = append(notReproduced, fmt.Sprintf("violation %s (%s) did not reproduce from its replay file %s in a fresh process:\n%s", o.prop, sig, path, tailStr(outp, 1500)))
			fmt.Printf("NOTE: %s %s not counted: it did not reproduce in a fresh process [replay=%s]\n", o.prop, sig, path)
			continue
		}
		status, why := confirmReal(s, v)
		if status == "refuted" {
			// the rewritten tool diverges, the real one does not: an artefact of the machinery, not of the tree
			fmt.Printf("NOTE: %s %s not counted: %s [replay=%s]\n", o.prop, sig, why, path)
			m.stats.Probes["divergences-refuted-by-the-real-binary"]++
			continue
		}
		if f := matchFinding(findings, o.prop, sig); f != nil {
			known++
			fmt.Printf("KNOWN-FINDING: property=%s %s [sig=%s replay=%s]\n", o.prop, f.What, sig, path)
			continue
		}
		newViol++
		fmt.Printf("VIOLATION property=%s replay=%s\n", o.prop, path)
		fmt.Printf("  signature: %s\n", sig)
		if status != "n/a" {
			fmt.Printf("  real binary: %s - %s\n", status, why)
			m.stats.Probes["divergences-"+status+"-on-the-real-binary"]++
		}
		for _, l := range strings.Split(strings.TrimSpace(v.Detail), "\n") {
			if len(l) > 300 {
				l = l[:300] + "..."
			}
			fmt.Printf("  %s\n", l)
		}
	}
	wall := since(t0)
	st := m.stats
	cov := map[string]any{
		"evaluations":         st.Worlds,
		"distinct_nontrivial": len(m.distinct),
		"rule":                ruleText[o.prop],
		"samples":             st.Samples,
		"simulated_runs":      st.Builds,
		"runs_per_hour":       int(float64(st.Builds) / wall * 3600),
		"seeds_per_hour":      int(float64(st.Worlds) / wall * 3600),
		"simulated_time":      fmt.Sprintf("%d simulated file-system operations over %d runs; %.0f s of simulated clock time passed in them (the tool has no timers of its own: the clock moves on reads and, in latency runs, by 0.5-5 s on a quarter of the operations)", st.SimOps, st.Builds, float64(st.SimMs)/1000),
		"fault_kinds_fired":   st.FaultsFired,
		"twin_dimensions":     st.Dims,
		"map_sites_multi_key": st.SitesMulti,
		"map_sites_permuted":  st.SitesPerm,
		"world_classes":       st.Classes,
		"exit_status_counts":  st.Exit,
		"fs_ops_seen":         st.OpsSeen,
		"world_use":           st.WorldUse,
		"probes":              st.Probes,
		"components":          realStub(),
		"instrumented_sites": map[string]any{"tree_map_ranges": s.RepoRep.MapSites, "runtime_map_ranges": s.HelpersRep.MapSites, "tree_world_calls": s.RepoRep.WorldCalls, "uncontrolled_world_calls": s.RepoRep.Uncontrolled,
			"uncontrolled_go_statements_in_tree": s.RepoRep.GoStmts},
		"known_findings_hit": known,
		"max_build_ms":       st.MaxMs,
		"cases_requested":    engine1Tiers[o.prop][o.tier].cases,
		"exhaustive":         false,
	}
	for k, v := range extraCoverage[o.prop] {
		cov[k] = v
	}
	ev := &Evidence{PropertyID: o.prop, Tier: o.tier, Seed: int64(o.seed), Level: levelOf[o.prop], Coverage: cov,
		Assumptions: assumptions[o.prop], WallS: wall, Violations: newViol}
	if st.Worlds == 0 {
		fatal2("no case was evaluated")
	}
	writeEvidence(ev)
	fmt.Printf("vcheck %s: %d cases, %d simulated runs, %d distinct non-trivial, %d new violation(s), %d known finding(s), %.0fs\n",
		o.prop, st.Worlds, st.Builds, len(m.distinct), newViol, known, wall)
	if newViol > 0 {
		return 1
	}
	if len(notReproduced) > 0 && known == 0 {
		fatal2("%s", strings.Join(notReproduced, "\n"))
	}
	return 0
}

// runReplay re-executes a replay file in a fresh process, every build in a process of its own
// (as the command-line tool runs). Outcomes:
//   - reproduced                                   -> (out, 1)
//   - not reproduced, but reproduced when all builds share one process: the divergence exists only
//     because the harness runs many builds in one process (package-level state of the tool);
//     every real run is a fresh process, so this is not a violation -> (out, 10)
//   - reproduced only after repeating the identical world: the program itself is
//     nondeterministic (goroutines the simulator does not schedule) -> (out, 1)
//   - otherwise -> (out, 0): the caller treats that as a fault of the machinery (exit 2)
func runReplay(s *prep.Scratch, path string) (string, int) {
	out, code := runReplayN(s, path, 1, false)
	if code == 0 && strings.Contains(out, "NOT-REPRODUCED") {
		// a nondeterministic program first: the identical worlds again, one process per build
		if o2, c2 := runReplayN(s, path, 60, false); c2 == 1 {
			return o2, 1
		}
		if o2, c2 := runReplayN(s, path, 1, true); c2 == 1 {
			return "IN-PROCESS-ARTEFACT: reproduces only when several builds share one process\n" + o2, 10
		}
		out, code = runReplayN(s, path, 400, false)
		if code == 0 && len(s.RepoRep.GoStmts) > 0 {
			// the tree starts goroutines the simulator does not schedule: the divergence was observed (both
			// outcomes are in the replay file) but this program cannot be made to repeat it on demand
			return "NONDETERMINISTIC: observed once, not reproduced in 461 further executions; the tree contains go statements (" +
				strings.Join(s.RepoRep.GoStmts, ", ") + "), its behaviour is not a function of the simulated inputs\n" + out, 1
		}
	}
	return out, code
}

func runReplayN(s *prep.Scratch, path string, retries int, sameProcess bool) (string, int) {
	args := []string{"replay", "-file", path, "-retries", fmt.Sprint(retries)}
	if sameProcess {
		args = append(args, "-same-process")
	}
	cmd := exec.Command(s.Worker, args...)
	cmd.Dir = s.Dir
	if s.WorkerRace {
		racelog := filepath.Join(s.Dir, "race-replay")
		cmd.Env = append(os.Environ(), "VERIFSIM_RACELOG="+racelog, "GORACE=log_path="+racelog+" halt_on_error=0 exitcode=0")
	}
	var b bytes.Buffer
	cmd.Stdout = &b
	cmd.Stderr = &b
	err := cmd.Run()
	code := 0
	if ee, ok := err.(*exec.ExitError); ok {
		code = ee.ExitCode()
	} else if err != nil {
		code = 2
	}
	return b.String(), code
}

func replay(o opts, path string) int {
	b, err := os.ReadFile(path)
	if err != nil {
		fatal2("%v", err)
	}
	var v struct {
		Property string `json:"property"`
		Gen      int    `json:"gen"`
		Mode     string `json:"mode"`
	}
	_ = json.Unmarshal(b, &v)
	switch v.Property {
	case "C05", "C15", "C20":
		return replayEngine2(o, path)
	}
	s, err := prep.Buildsim(o.repo)
	defer s.Cleanup()
	if err != nil {
		fatal2("%v", err)
	}
	os.Setenv("VERIFSIM_REPO", s.Pristine)
	if v.Property == "C19" && (v.Gen == 2 || v.Mode == "c19-build") {
		g1 := filepath.Join(s.Dir, "generation1.go")
		cmd := exec.Command(s.Worker, "selfout", "-out", g1)
		cmd.Dir = s.Dir
		if out, err := cmd.CombinedOutput(); err != nil {
			fatal2("generation 1 could not be produced: %v\n%s", err, out)
		}
		data, _ := os.ReadFile(g1)
		_ = os.WriteFile(filepath.Join(s.Repo, "internal/gontainer/gontainer.go"), data, 0644)
		if err := prep.RebuildWorker(s); err != nil {
			fmt.Printf("REPRODUCED property=C19 sig=tool-does-not-rebuild-with-regenerated-file\n%v\nVIOLATION property=C19 replay=%s\n", err, path)
			return 1
		}
	}
	out, code := runReplay(s, path)
	fmt.Print(out)
	if code == 1 {
		fmt.Printf("VIOLATION property=%s replay=%s\n", v.Property, path)
	}
	return code
}

var levelOf = map[string]string{"C08": "exploration", "C10": "fault_enumeration", "C12": "exploration", "C19": "exploration", "C05": "exploration", "C15": "exploration", "C20": "exploration"}

var ruleText = map[string]string{
	"C08": "one case = one generated world (configuration over 1-4 files, -i patterns, -o, flags, build version; valid, or with 1-3 injected defects incl. several of one class, or an environmental failure class) executed once as base and 7 times as twins that differ only in one declared-irrelevant dimension (2x map-iteration schedule, listing order, environment incl. every variable the base run was seen reading, cwd, clock/rand/pid/host, YAML key order); exit status, stdout and the -o file are compared. distinct = distinct (world class, file/pattern count, -o kind, flags, exit, #fs ops, #map sites with >=2 keys, stdout hash); every counted case is non-trivial in that its base run reached at least the read-config step",
	"C10": "one case = one generated world (valid / each defect class / each environmental failure class x flag combinations x pre-existing, absent or odd -o) run fault-free (contract clauses + --quiet twin), then once per element of its COMPLETE single-fault space (every simulated FS operation of the fault-free run x every fault kind applicable to it; torn reads/writes at k in {0,1,len/2,len-1,drawn}; 5 content corruptions per successful open), then 6 seeded 2-3-fault plans. distinct = distinct (world class, file/pattern count, -o kind, flags, exit, #fs ops, stdout hash) of the fault-free run; non-trivial = the fault-free run performed at least one simulated FS operation",
	"C12": "one case = one world from 10 input families (generic, node-kind-confusion storms in every schema position, content corruption on reads, byte-level mutation of rendered files, pathological names/globs/nesting, layered re-converging dependency graphs with <=4 elementary cycles, error faults on reads and writes) run once under the process monitors (no panic, no hang within the budget, exit status 0 or 1) and, where no error fault fired, the output-file contract. distinct as for C08",
	"C19": "one case = the repository's own configuration (internal/gontainer/*.yaml, the Makefile's two -i patterns) regenerated under one drawn schedule: map-iteration seeds for every site in tree and runtime, listing order, environment noise, PATH with/without go, cwd, build info (version/commit/date/dirty), in place or to a fresh path, quiet or not; 1 in 8 with one input made unreadable. generation 1 must equal the checked-in file minus the version line; the tool is then rebuilt with the regenerated file and generation 2 must equal generation 1 over half as many schedules again. distinct = distinct (schedule seeds, env size, PATH, cwd, build info, flags); all cases non-trivial (each executes the full build)",
}

var assumptions = map[string][]string{
	"C08": {"map iteration inside third-party dependencies is not under the seam; a leak from there would show as a same-seed divergence in the determinism self-test",
		"terminal colouring is excluded: the harness has no tty",
		"patterns and -o are relative paths in cwd twins, because the report legitimately echoes the strings it was given",
		"a clean batch is evidence over the sampled worlds and schedules, not a proof"},
	"C10": {"whether a configuration is valid is taken from the fault-free run of the same world, not judged here",
		"stdout write failures are outside the property's enumerated failure causes and are not injected",
		"an error fault on a write-path operation is not required to fail the run (a retry or fallback is legal); it is required that exit 0 implies the complete output and exit != 0 implies an untouched -o",
		"a content corruption that hits one of several reads of the same file is judged on run-local clauses only",
		"the single-fault space of each world is enumerated completely; worlds and multi-fault plans are sampled",
		"files left behind elsewhere (temporary files) are counted as a probe, not judged: the property speaks about the -o path"},
	"C12": {"the quantifier 'for all byte strings' is sampled along fault-shaped and schema-shaped mutations, not by coverage-guided fuzzing: a clean batch is weak evidence for that quantifier",
		"hang = no result within the budget on a world whose files total <= 64 KiB and whose graph has <= 4 elementary cycles",
		"with an error fault in play only the process-level monitors are judged (the file contract under faults is C10's)"},
	"C19": {"generation 2 is skipped when generation 1 already deviates", "faulted regenerations inject unreadable inputs only (write-path faults are C10's subject)",
		"the comparison ignores exactly the '// gontainer version:' line"},
}

var extraCoverage = map[string]map[string]any{
	"C10": {"exhaustive_subspace": "single-fault space per world (every FS operation x applicable fault kind) is enumerated completely; reported as exhaustive=false because worlds are sampled"},
}

func firstLineWith(s string, keys ...string) string {
	for _, l := range strings.Split(s, "\n") {
		for _, k := range keys {
			if strings.Contains(l, k) {
				return strings.TrimSpace(l)
			}
		}
	}
	return "no diagnostic"
}
