package main

import (
	"bytes"
	"encoding/json"
	"fmt"
	"os"
	"os/exec"
	"path/filepath"
	"sort"
	"strings"
	"sync"
	"time"

	"verif/prep"
	"verifsim/bsim"
)

type tierSpec struct {
	cases int
	maxS  float64
}

var engine1Tiers = map[string]map[string]tierSpec{
	"C08": {"quick": {2400, 150}, "thorough": {60000, 1500}},
	"C10": {"quick": {480, 150}, "thorough": {16000, 1500}},
	"C12": {"quick": {4000, 150}, "thorough": {120000, 1500}},
	"C19": {"quick": {320, 120}, "thorough": {16000, 900}},
}

type merged struct {
	stats      *bsim.Stats
	distinct   map[string]bool
	violations []*bsim.Violation
	done       int
	aborted    []string
	eventLogs  []string
}

func mergeStats(dst, src *bsim.Stats) {
	add := func(d, s map[string]int) {
		for k, v := range s {
			d[k] += v
		}
	}
	dst.Worlds += src.Worlds
	dst.Builds += src.Builds
	dst.Panics += src.Panics
	dst.Hangs += src.Hangs
	dst.SlowBuilds += src.SlowBuilds
	dst.SimOps += src.SimOps
	if src.MaxMs > dst.MaxMs {
		dst.MaxMs = src.MaxMs
	}
	add(dst.Classes, src.Classes)
	add(dst.Exit, src.Exit)
	add(dst.Dims, src.Dims)
	add(dst.SitesMulti, src.SitesMulti)
	add(dst.SitesPerm, src.SitesPerm)
	add(dst.FaultsFired, src.FaultsFired)
	add(dst.OpsSeen, src.OpsSeen)
	add(dst.WorldUse, src.WorldUse)
	add(dst.Probes, src.Probes)
	for _, s := range src.Samples {
		if len(dst.Samples) < 4 {
			dst.Samples = append(dst.Samples, s)
		}
	}
}

// runWorkers partitions [0,cases) over the workers and runs them to completion.
func runWorkers(s *prep.Scratch, o opts, cases int, maxS float64, extra ...string) *merged {
	m := &merged{stats: bsim.NewStats(), distinct: map[string]bool{}}
	w := o.workers
	if w > cases {
		w = cases
	}
	if w < 1 {
		w = 1
	}
	outDir := filepath.Join(s.Dir, "out")
	_ = os.MkdirAll(outDir, 0755)
	var mu sync.Mutex
	var wg sync.WaitGroup
	// interleave indices in chunks so that a wall-clock cut-off still samples every region
	chunk := (cases + w - 1) / w
	for k := 0; k < w; k++ {
		from, to := k*chunk, (k+1)*chunk
		if to > cases {
			to = cases
		}
		if from >= to {
			continue
		}
		wg.Add(1)
		go func(k, from, to int) {
			defer wg.Done()
			for attempt := 0; from < to && attempt < 20; attempt++ {
				out := filepath.Join(outDir, fmt.Sprintf("w%d-%d.json", k, attempt))
				args := []string{"run", "-prop", o.prop, "-seed", fmt.Sprint(o.seed), "-from", fmt.Sprint(from), "-to", fmt.Sprint(to),
					"-out", out, "-tier", o.tier, "-max-s", fmt.Sprint(maxS)}
				args = append(args, extra...)
				cmd := exec.Command(s.Worker, args...)
				cmd.Dir = s.Dir
				var eb bytes.Buffer
				cmd.Stdout = &eb
				cmd.Stderr = &eb
				done := make(chan error, 1)
				if err := cmd.Start(); err != nil {
					fatal2("starting worker: %v", err)
				}
				go func() { done <- cmd.Wait() }()
				var err error
				select {
				case err = <-done:
				case <-time.After(time.Duration(maxS*2+600) * time.Second):
					_ = cmd.Process.Kill()
					fatal2("worker %d exceeded its watchdog (%v s); output:\n%s", k, maxS*2+600, eb.String())
				}
				b, rerr := os.ReadFile(out)
				if rerr != nil {
					fatal2("worker %d wrote no result (%v, %v); output:\n%s", k, err, rerr, eb.String())
				}
				var bo bsim.BatchOut
				if jerr := json.Unmarshal(b, &bo); jerr != nil {
					fatal2("worker %d result unreadable: %v", k, jerr)
				}
				mu.Lock()
				mergeStats(m.stats, bo.Stats)
				for _, d := range bo.Distinct {
					m.distinct[d] = true
				}
				m.violations = append(m.violations, bo.Violations...)
				m.done += bo.Done - from
				m.eventLogs = append(m.eventLogs, bo.EventLog...)
				if bo.Aborted != "" {
					m.aborted = append(m.aborted, bo.Aborted)
				}
				mu.Unlock()
				if bo.Aborted == "" {
					return // finished its range or hit the time bound
				}
				from = bo.Done
			}
		}(k, from, to)
	}
	wg.Wait()
	sort.Strings(m.eventLogs)
	return m
}

func realStub() map[string]any {
	return map[string]any{
		"real_code": []string{"all packages of the working tree /repo incl. main.go (rewritten only at map ranges and os/filepath/time/rand/fmt.Print* call sites)",
			"gontainer-helpers runtime module (rewritten only at map ranges)", "yaml.v3", "cobra/pflag", "text/template", "go/format", "x/tools/imports", "gonum graph", "fatih/color"},
		"simulated": []string{"order of every map iteration in /repo and gontainer-helpers code (seeded per site and call)", "directory-listing / glob result order (seeded permutation)",
			"file-system fault layer over a private tmpfs directory: error returns, short reads, torn writes, failed close/rename/create-temp, corrupted read content at exact operation indices",
			"process environment, working directory, build version, clock, random source, pid, hostname (all set from the seed per run)", "process exit (os.Exit unwinds to the harness)", "stdout/stderr (captured)"},
		"not_controlled": []string{"map iteration inside third-party dependencies (yaml, gonum, x/tools, text/template): detected by the same-seed determinism self-test rather than controlled",
			"terminal colour decision of fatih/color (harness has no tty: colour is always off)"},
	}
}

func runEngine1(o opts) int {
	t0 := time.Now()
	spec := engine1Tiers[o.prop][o.tier]
	if o.cases > 0 {
		spec.cases = o.cases
	}
	if o.maxS > 0 {
		spec.maxS = o.maxS
	}
	s, err := prep.Buildsim(o.repo)
	defer s.Cleanup()
	if err != nil {
		fatal2("%v", err)
	}
	fmt.Printf("vcheck %s tier=%s seed=%d cases=%d workers=%d (instrumented build %.1fs; %d map sites in tree, %d in runtime; world calls %v)\n",
		o.prop, o.tier, o.seed, spec.cases, o.workers, s.BuildS, len(s.RepoRep.MapSites), len(s.HelpersRep.MapSites), s.RepoRep.WorldCalls)
	m := runWorkers(s, o, spec.cases, spec.maxS)
	code := report(o, s, m, t0)
	return code
}

// report writes replay files, confirms them in a fresh process, matches known findings,
// prints the verdict lines and writes the evidence file.
func report(o opts, s *prep.Scratch, m *merged, t0 time.Time) int {
	findings := loadFindings()
	bySig := map[string]*bsim.Violation{}
	var sigs []string
	for _, v := range m.violations {
		if v.Property != o.prop {
			continue
		}
		if old, ok := bySig[v.Sig]; !ok || len(v.Choices) < len(old.Choices) {
			if !ok {
				sigs = append(sigs, v.Sig)
			}
			bySig[v.Sig] = v
		}
	}
	sort.Strings(sigs)
	newViol := 0
	known := 0
	repDir := filepath.Join(verifDir, "replays")
	_ = os.MkdirAll(repDir, 0755)
	for n, sig := range sigs {
		v := bySig[sig]
		path := filepath.Join(repDir, fmt.Sprintf("%s-%d-%d.json", o.prop, o.seed, n))
		b, _ := json.MarshalIndent(v, "", " ")
		if err := os.WriteFile(path, b, 0644); err != nil {
			fatal2("writing replay: %v", err)
		}
		// replay in a fresh process: must reproduce, otherwise the machinery is at fault
		outp, code := runReplay(s, path)
		if code != 1 || !strings.Contains(outp, "REPRODUCED") || strings.Contains(outp, "NOT-REPRODUCED") {
			fatal2("violation %s (%s) did not reproduce from its replay file %s in a fresh process:\n%s", o.prop, sig, path, outp)
		}
		if f := matchFinding(findings, o.prop, sig); f != nil {
			known++
			fmt.Printf("KNOWN-FINDING: property=%s %s [sig=%s replay=%s]\n", o.prop, f.What, sig, path)
			continue
		}
		newViol++
		fmt.Printf("VIOLATION property=%s replay=%s\n", o.prop, path)
		fmt.Printf("  signature: %s\n", sig)
		for _, l := range strings.Split(strings.TrimSpace(v.Detail), "\n") {
			if len(l) > 300 {
				l = l[:300] + "..."
			}
			fmt.Printf("  %s\n", l)
		}
	}
	wall := since(t0)
	st := m.stats
	cov := map[string]any{
		"evaluations":         st.Worlds,
		"distinct_nontrivial": len(m.distinct),
		"rule":                ruleText[o.prop],
		"samples":             st.Samples,
		"simulated_runs":      st.Builds,
		"runs_per_hour":       int(float64(st.Builds) / wall * 3600),
		"seeds_per_hour":      int(float64(st.Worlds) / wall * 3600),
		"simulated_time":      fmt.Sprintf("%d simulated file-system operations over %d runs (the system has no clock or timers; simulated time is counted in operations)", st.SimOps, st.Builds),
		"fault_kinds_fired":   st.FaultsFired,
		"twin_dimensions":     st.Dims,
		"map_sites_multi_key": st.SitesMulti,
		"map_sites_permuted":  st.SitesPerm,
		"world_classes":       st.Classes,
		"exit_status_counts":  st.Exit,
		"fs_ops_seen":         st.OpsSeen,
		"world_use":           st.WorldUse,
		"probes":              st.Probes,
		"components":          realStub(),
		"instrumented_sites":  map[string]any{"tree_map_ranges": s.RepoRep.MapSites, "runtime_map_ranges": s.HelpersRep.MapSites, "tree_world_calls": s.RepoRep.WorldCalls, "uncontrolled_world_calls": s.RepoRep.Uncontrolled},
		"known_findings_hit":  known,
		"max_build_ms":        st.MaxMs,
		"cases_requested":     engine1Tiers[o.prop][o.tier].cases,
		"exhaustive":          false,
	}
	for k, v := range extraCoverage[o.prop] {
		cov[k] = v
	}
	ev := &Evidence{PropertyID: o.prop, Tier: o.tier, Seed: int64(o.seed), Level: levelOf[o.prop], Coverage: cov,
		Assumptions: assumptions[o.prop], WallS: wall, Violations: newViol}
	if st.Worlds == 0 {
		fatal2("no case was evaluated")
	}
	writeEvidence(ev)
	fmt.Printf("vcheck %s: %d cases, %d simulated runs, %d distinct non-trivial, %d new violation(s), %d known finding(s), %.0fs\n",
		o.prop, st.Worlds, st.Builds, len(m.distinct), newViol, known, wall)
	if newViol > 0 {
		return 1
	}
	return 0
}

func runReplay(s *prep.Scratch, path string) (string, int) {
	cmd := exec.Command(s.Worker, "replay", "-file", path)
	cmd.Dir = s.Dir
	var b bytes.Buffer
	cmd.Stdout = &b
	cmd.Stderr = &b
	err := cmd.Run()
	code := 0
	if ee, ok := err.(*exec.ExitError); ok {
		code = ee.ExitCode()
	} else if err != nil {
		code = 2
	}
	return b.String(), code
}

func replay(o opts, path string) int {
	b, err := os.ReadFile(path)
	if err != nil {
		fatal2("%v", err)
	}
	var v struct {
		Property string `json:"property"`
	}
	_ = json.Unmarshal(b, &v)
	switch v.Property {
	case "C05", "C15", "C20":
		return replayEngine2(o, path)
	}
	s, err := prep.Buildsim(o.repo)
	defer s.Cleanup()
	if err != nil {
		fatal2("%v", err)
	}
	out, code := runReplay(s, path)
	fmt.Print(out)
	if code == 1 {
		fmt.Printf("VIOLATION property=%s replay=%s\n", v.Property, path)
	}
	return code
}

var levelOf = map[string]string{"C08": "exploration", "C10": "fault_enumeration", "C12": "exploration", "C19": "exploration", "C05": "exploration", "C15": "exploration", "C20": "exploration"}

var ruleText = map[string]string{
	"C08": "one case = one generated world (configuration over 1-4 files, -i patterns, -o, flags, build version; valid, or with 1-3 injected defects incl. several of one class, or an environmental failure class) executed once as base and 7 times as twins that differ only in one declared-irrelevant dimension (2x map-iteration schedule, listing order, environment incl. every variable the base run was seen reading, cwd, clock/rand/pid/host, YAML key order); exit status, stdout and the -o file are compared. distinct = distinct (world class, file/pattern count, -o kind, flags, exit, #fs ops, #map sites with >=2 keys, stdout hash); all counted cases are non-trivial in that their base run reached at least the read-config step",
}

var assumptions = map[string][]string{
	"C08": {"map iteration inside third-party dependencies is not under the seam; a leak from there would show as a same-seed divergence in the determinism self-test",
		"terminal colouring is excluded: the harness has no tty",
		"patterns and -o are relative paths in cwd twins, because the report legitimately echoes the strings it was given",
		"a clean batch is evidence over the sampled worlds and schedules, not a proof"},
}

var extraCoverage = map[string]map[string]any{}
