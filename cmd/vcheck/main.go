// vcheck is the driver of every registered check.
//
//	vcheck <PROP> [--tier quick|thorough] [--cases N] [--workers N] [--seed N]
//	vcheck replay <file>
//	vcheck selftest [--engine 1|2]
//
// exit 0: the property held on everything explored (KNOWN-FINDING lines may be printed)
// exit 1: "VIOLATION property=<id> replay=<path>" printed for every new violation
// exit 2: build / instrumentation / watchdog / replay-divergence trouble (never a VIOLATION)
package main

import (
	"encoding/json"
	"flag"
	"fmt"
	"os"
	"path/filepath"
	"strconv"
	"strings"
	"time"
)

var verifDir string

func fatal2(format string, a ...any) {
	fmt.Fprintf(os.Stderr, "vcheck: infrastructure error (exit 2, not a violation): "+format+"\n", a...)
	os.Exit(2)
}

func envSeed() uint64 {
	if s := os.Getenv("VERIF_SEED"); s != "" {
		if v, err := strconv.ParseUint(s, 10, 64); err == nil {
			return v
		}
		if v, err := strconv.ParseInt(s, 10, 64); err == nil {
			return uint64(v)
		}
	}
	return 20261001
}

type opts struct {
	prop    string
	tier    string
	cases   int
	workers int
	seed    uint64
	repo    string
	maxS    float64
}

func main() {
	if len(os.Args) < 2 {
		fmt.Fprintln(os.Stderr, "usage: vcheck <PROP>|replay|selftest ...")
		os.Exit(2)
	}
	wd, _ := os.Getwd()
	verifDir = wd
	if d := os.Getenv("VERIF_DIR"); d != "" {
		verifDir = d
	} else {
		os.Setenv("VERIF_DIR", verifDir)
	}
	cmd := os.Args[1]
	fs := flag.NewFlagSet(cmd, flag.ExitOnError)
	o := opts{prop: cmd}
	fs.StringVar(&o.tier, "tier", "", "quick|thorough")
	fs.IntVar(&o.cases, "cases", 0, "number of generated cases (0: tier default)")
	fs.IntVar(&o.workers, "workers", 16, "worker processes")
	seed := fs.Uint64("seed", 0, "seed (default $VERIF_SEED)")
	fs.StringVar(&o.repo, "repo", "/repo", "working tree to check")
	fs.Float64Var(&o.maxS, "max-s", 0, "soft wall-clock bound for the exploration phase")
	engine := fs.Int("engine", 0, "selftest: engine")
	args := os.Args[2:]
	var pos []string
	for len(args) > 0 && !strings.HasPrefix(args[0], "-") {
		pos = append(pos, args[0])
		args = args[1:]
	}
	_ = fs.Parse(args)
	if o.tier == "" {
		o.tier = os.Getenv("VERIF_TIER")
	}
	if o.tier == "" {
		o.tier = "quick"
	}
	o.seed = *seed
	if o.seed == 0 {
		o.seed = envSeed()
	}
	switch cmd {
	case "replay":
		if len(pos) != 1 {
			fatal2("usage: vcheck replay <file>")
		}
		os.Exit(replay(o, pos[0]))
	case "selftest":
		os.Exit(selftest(o, *engine))
	case "C08", "C10", "C12", "C19":
		os.Exit(runEngine1(o))
	case "C05", "C15", "C20":
		os.Exit(runEngine2(o))
	default:
		fatal2("unknown property %q", cmd)
	}
}

// ---------------------------------------------------------------------------------------
// known findings

type Finding struct {
	Property string `json:"property"`
	Sig      string `json:"sig"` // exact signature, or a prefix when it ends with '*'
	What     string `json:"what"`
	Status   string `json:"status"` // open | fixed
	Commit   string `json:"commit,omitempty"`
}

func loadFindings() []Finding {
	b, err := os.ReadFile(filepath.Join(verifDir, "known_findings.json"))
	if err != nil {
		return nil
	}
	var f struct {
		Findings []Finding `json:"findings"`
	}
	if err := json.Unmarshal(b, &f); err != nil {
		fatal2("known_findings.json: %v", err)
	}
	return f.Findings
}

func matchFinding(fs []Finding, prop, sig string) *Finding {
	for i, f := range fs {
		if f.Property != prop || f.Status != "open" {
			continue
		}
		if f.Sig == sig || (strings.HasSuffix(f.Sig, "*") && strings.HasPrefix(sig, strings.TrimSuffix(f.Sig, "*"))) {
			return &fs[i]
		}
	}
	return nil
}

// ---------------------------------------------------------------------------------------
// evidence

type Evidence struct {
	PropertyID  string         `json:"property_id"`
	Tier        string         `json:"tier"`
	Seed        int64          `json:"seed"`
	Level       string         `json:"level"`
	Coverage    map[string]any `json:"coverage"`
	Assumptions []string       `json:"assumptions"`
	WallS       float64        `json:"wall_s"`
	Violations  int            `json:"violations"`
}

func writeEvidence(e *Evidence) {
	dir := filepath.Join(verifDir, "evidence")
	if d := os.Getenv("VERIF_EVIDENCE_DIR"); d != "" {
		dir = d // measurement builds (tools/reach.sh) must not overwrite the checks' evidence
	}
	_ = os.MkdirAll(dir, 0755)
	b, _ := json.MarshalIndent(e, "", " ")
	if err := os.WriteFile(filepath.Join(dir, e.PropertyID+".json"), append(b, '\n'), 0644); err != nil {
		fatal2("writing evidence: %v", err)
	}
}

func since(t time.Time) float64 { return float64(int(time.Since(t).Seconds()*100)) / 100 }
