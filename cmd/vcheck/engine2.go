package main

import (
	"bytes"
	"encoding/json"
	"fmt"
	"os"
	"os/exec"
	"path/filepath"
	"regexp"
	"sort"
	"strings"
	"sync"
	"time"

	"verif/prep"
	"verifsim/bsim"
)

type e2spec struct {
	configs int
	cases   int
	maxS    float64
	nenum   int // C05: configurations of the exhaustive small-graph family (13 shapes x 4^3 scope assignments = 832)
}

var engine2Tiers = map[string]map[string]e2spec{
	"C05": {"quick": {28, 16000, 150, 416}, "thorough": {96, 300000, 1500, 832}},
	"C15": {"quick": {32, 9600, 150, 0}, "thorough": {96, 200000, 1500, 0}},
	"C20": {"quick": {28, 16000, 200, 156}, "thorough": {64, 300000, 1800, 640}},
}

// e2Violation mirrors the fields of rsim.Violation the driver needs.
type e2Violation struct {
	Property string `json:"property"`
	Sig      string `json:"sig"`
	Detail   string `json:"detail"`
	Config   string `json:"config"`
	Choices  []int  `json:"choices"`
	raw      json.RawMessage
}

type e2Stats struct {
	Runs      int            `json:"runs"`
	Ops       int            `json:"ops"`
	Steps     int            `json:"steps"`
	Contended int            `json:"contended"`
	Blocks    int            `json:"blocks"`
	Policies  map[string]int `json:"policies"`
	Outcomes  map[string]int `json:"outcomes"`
	OpKinds   map[string]int `json:"op_kinds"`
	Probes    map[string]int `json:"probes"`
	Scopes    map[string]int `json:"scopes"`
	Faults    map[string]int `json:"faults"`
	Samples   []any          `json:"samples"`
	PerConfig map[string]int `json:"per_config"`
}

type e2Batch struct {
	Done       int               `json:"done"`
	Stats      e2Stats           `json:"stats"`
	Distinct   []string          `json:"distinct"`
	Interleave []string          `json:"interleave"`
	Violations []json.RawMessage `json:"violations"`
	Aborted    string            `json:"aborted"`
	EventLog   []string          `json:"event_log"`
}

func addMap(d, s map[string]int) {
	for k, v := range s {
		d[k] += v
	}
}

type e2Merged struct {
	stats      e2Stats
	distinct   map[string]bool
	interleave map[string]bool
	violations []*e2Violation
	aborted    int
	eventLogs  []string
	watchdogs  []string
}

func runProbeWorkers(s *prep.Scratch, probe string, o opts, cases int, maxS float64, race bool, extra ...string) *e2Merged {
	m := &e2Merged{distinct: map[string]bool{}, interleave: map[string]bool{}}
	m.stats = e2Stats{Policies: map[string]int{}, Outcomes: map[string]int{}, OpKinds: map[string]int{}, Probes: map[string]int{}, Scopes: map[string]int{}, Faults: map[string]int{}, PerConfig: map[string]int{}}
	w := o.workers
	if w > cases {
		w = cases
	}
	if w < 1 {
		w = 1
	}
	outDir := filepath.Join(s.Dir, "out2")
	_ = os.MkdirAll(outDir, 0755)
	var mu sync.Mutex
	var wg sync.WaitGroup
	chunk := (cases + w - 1) / w
	for k := 0; k < w; k++ {
		from, to := k*chunk, (k+1)*chunk
		if to > cases {
			to = cases
		}
		if from >= to {
			continue
		}
		wg.Add(1)
		go func(k, from, to int) {
			defer wg.Done()
			for attempt := 0; from < to && attempt < 50; attempt++ {
				out := filepath.Join(outDir, fmt.Sprintf("w%d-%d.json", k, attempt))
				args := []string{"run", "-prop", o.prop, "-seed", fmt.Sprint(o.seed), "-from", fmt.Sprint(from), "-to", fmt.Sprint(to), "-out", out, "-max-s", fmt.Sprint(maxS)}
				args = append(args, extra...)
				cmd := exec.Command(probe, args...)
				cmd.Dir = s.Dir
				racelog := filepath.Join(outDir, fmt.Sprintf("race-w%d-%d", k, attempt))
				cmd.Env = append(os.Environ(), "VERIFSIM_RACELOG="+racelog, "GORACE=log_path="+racelog+" halt_on_error=0 exitcode=0 history_size=2")
				var eb bytes.Buffer
				cmd.Stdout, cmd.Stderr = &eb, &eb
				if err := cmd.Start(); err != nil {
					fatal2("starting probe: %v", err)
				}
				done := make(chan error, 1)
				go func() { done <- cmd.Wait() }()
				select {
				case <-done:
				case <-time.After(time.Duration(maxS+150) * time.Second):
					// the worker hangs in something the simulation does not control: its range is given up; what the
					// other workers found still counts, and if nobody found anything the check ends with exit 2
					_ = cmd.Process.Kill()
					<-done
					mu.Lock()
					m.watchdogs = append(m.watchdogs, fmt.Sprintf("probe worker %d (cases %d..%d) exceeded its watchdog; output:\n%s", k, from, to, tailStr(eb.String(), 1500)))
					mu.Unlock()
					fmt.Printf("NOTE: probe worker %d did not finish cases %d..%d within its watchdog: range given up\n", k, from, to)
					return
				}
				b, rerr := os.ReadFile(out)
				if rerr != nil {
					fatal2("probe worker %d wrote no result (%v); output:\n%s", k, rerr, tailStr(eb.String(), 3000))
				}
				var bo e2Batch
				if jerr := json.Unmarshal(b, &bo); jerr != nil {
					fatal2("probe worker %d result unreadable: %v", k, jerr)
				}
				mu.Lock()
				st := &m.stats
				st.Runs += bo.Stats.Runs
				st.Ops += bo.Stats.Ops
				st.Steps += bo.Stats.Steps
				st.Contended += bo.Stats.Contended
				st.Blocks += bo.Stats.Blocks
				addMap(st.Policies, bo.Stats.Policies)
				addMap(st.Outcomes, bo.Stats.Outcomes)
				addMap(st.OpKinds, bo.Stats.OpKinds)
				addMap(st.Probes, bo.Stats.Probes)
				addMap(st.Scopes, bo.Stats.Scopes)
				addMap(st.Faults, bo.Stats.Faults)
				addMap(st.PerConfig, bo.Stats.PerConfig)
				for _, x := range bo.Stats.Samples {
					if len(st.Samples) < 4 {
						st.Samples = append(st.Samples, x)
					}
				}
				for _, d := range bo.Distinct {
					m.distinct[d] = true
				}
				for _, d := range bo.Interleave {
					m.interleave[d] = true
				}
				for _, raw := range bo.Violations {
					v := &e2Violation{raw: raw}
					_ = json.Unmarshal(raw, v)
					m.violations = append(m.violations, v)
				}
				m.eventLogs = append(m.eventLogs, bo.EventLog...)
				if bo.Aborted != "" {
					m.aborted++
				}
				mu.Unlock()
				if bo.Aborted == "" {
					return
				}
				from = bo.Done
			}
		}(k, from, to)
	}
	wg.Wait()
	sort.Strings(m.eventLogs)
	return m
}

func tailStr(s string, n int) string {
	if len(s) > n {
		return s[len(s)-n:]
	}
	return s
}

type genOut struct {
	Items []struct {
		Name    string `json:"name"`
		Exit    int    `json:"exit"`
		Files   int    `json:"files"`
		Illegal bool   `json:"illegal"`
		NoRun   bool   `json:"no_run"`
		CType   string `json:"ctype"`
		CCtor   string `json:"cctor"`
	} `json:"items"`
	Violations []*bsim.Violation `json:"violations"`
	Builds     int               `json:"builds"`
}

func runEngine2(o opts) int {
	t0 := time.Now()
	spec := engine2Tiers[o.prop][o.tier]
	if o.cases > 0 {
		spec.cases = o.cases
	}
	if o.maxS > 0 {
		spec.maxS = o.maxS
	}
	race := o.prop == "C20"
	s, err := prep.Buildsim(o.repo)
	defer s.Cleanup()
	if err != nil {
		fatal2("%v", err)
	}
	// 1. draw the batch's configurations and push them through the (instrumented) build command
	gendir := filepath.Join(s.Dir, "gen")
	genJSON := filepath.Join(s.Dir, "genout.json")
	cmd := exec.Command(s.Worker, "genbatch", "-prop", o.prop, "-seed", fmt.Sprint(o.seed), "-to", fmt.Sprint(spec.configs), "-from", fmt.Sprint(spec.nenum), "-file", gendir, "-out", genJSON)
	cmd.Dir = s.Dir
	if out, err := cmd.CombinedOutput(); err != nil {
		fatal2("generating the batch's containers failed: %v\n%s", err, tailStr(string(out), 3000))
	}
	var g genOut
	b, _ := os.ReadFile(genJSON)
	if err := json.Unmarshal(b, &g); err != nil {
		fatal2("genout: %v", err)
	}
	var items []prep.ProbeItem
	accepted, rejected := 0, 0
	for _, it := range g.Items {
		if it.Exit == 0 {
			accepted++
			if !it.NoRun {
				items = append(items, prep.ProbeItem{Name: it.Name, CType: it.CType, CCtor: it.CCtor})
			}
		} else {
			rejected++
		}
	}
	// 2. build the probe
	probe, broken, irep, err := prep.Probe(s, gendir, items, race)
	if err != nil {
		fatal2("%v", err)
	}
	fmt.Printf("vcheck %s tier=%s seed=%d: %d configurations drawn, %d accepted, %d rejected, %d do not compile; probe built (race=%v, %d yields, %d sync rewrites) in %.0fs\n",
		o.prop, o.tier, o.seed, len(g.Items), accepted, rejected, len(broken), race, irep.Yields, s.HelpersRep.SyncRewrites+irep.SyncRewrites, since(t0))
	m1 := &merged{stats: bsim.NewStats(), distinct: map[string]bool{}}
	m1.violations = append(m1.violations, g.Violations...)
	var bnames []string
	for n := range broken {
		bnames = append(bnames, n)
	}
	sort.Strings(bnames)
	for _, n := range bnames {
		msg := broken[n]
		if o.prop != "C05" || !strings.Contains(msg, "Scope") {
			// whether accepted configurations compile is not this property's claim (and not a
			// simulation question): counted in the evidence, not judged. For C05 a compile error in
			// the scope wiring means the declared scope cannot take effect at all.
			continue
		}
		m1.violations = append(m1.violations, &bsim.Violation{Property: o.prop, Sig: "generated-code-does-not-compile:" + compileErrClass(msg), Mode: "compile",
			Detail: "the configuration " + n + " was accepted by `build` but its generated container does not compile against the pinned runtime:\n" + tailStr(msg, 1500) + "\n" + cfgOf(gendir, n)})
	}
	// 3. run the histories
	var m2 *e2Merged
	if accepted-len(broken) > 0 {
		m2 = runProbeWorkers(s, probe, o, spec.cases, spec.maxS, race)
		if o.prop == "C15" {
			// exhaustive family: every history of length <= 4 over a 10-operation alphabet on the small todo configuration
			oo := o
			oo.prop = "C15enum"
			m3 := runProbeWorkers(s, probe, oo, 1000000, spec.maxS, race) // capped by the probe to the size of the family
			m2.stats.Runs += m3.stats.Runs
			m2.stats.Ops += m3.stats.Ops
			addMap(m2.stats.OpKinds, m3.stats.OpKinds)
			addMap(m2.stats.Probes, m3.stats.Probes)
			addMap(m2.stats.PerConfig, m3.stats.PerConfig)
			m2.stats.Probes["exhaustive-histories-up-to-length-4"] = m3.stats.Runs
			for d := range m3.distinct {
				m2.distinct[d] = true
			}
			m2.violations = append(m2.violations, m3.violations...)
		}
	} else {
		m2 = &e2Merged{distinct: map[string]bool{}, interleave: map[string]bool{}}
	}
	return report2(o, s, probe, g, m1, m2, len(broken), t0)
}

func cfgOf(gendir, name string) string {
	b, err := os.ReadFile(filepath.Join(gendir, name, "cfg.json"))
	if err != nil {
		return ""
	}
	if len(b) > 1500 {
		b = b[:1500]
	}
	return "configuration model: " + string(b)
}

var reUndef = regexp.MustCompile(`([A-Za-z0-9_.]+) undefined`)

// compileErrClass: the first undefined symbol (scope setters folded into one class), else the first message.
func compileErrClass(msg string) string {
	if m := reUndef.FindStringSubmatch(msg); m != nil {
		sym := m[1]
		if strings.HasPrefix(sym, "s.Scope") {
			sym = "s.Scope*"
		}
		return "undefined:" + sym
	}
	ls := strings.Split(strings.TrimSpace(msg), "\n")
	l := ls[0]
	if i := strings.LastIndex(l, ": "); i >= 0 {
		l = l[i+2:]
	}
	if len(l) > 50 {
		l = l[:50]
	}
	return strings.ReplaceAll(l, " ", "-")
}

func report2(o opts, s *prep.Scratch, probe string, g genOut, m1 *merged, m2 *e2Merged, nbroken int, t0 time.Time) int {
	findings := loadFindings()
	repDir := filepath.Join(verifDir, "replays")
	_ = os.MkdirAll(repDir, 0755)
	type item struct {
		sig, detail string
		raw         []byte
		kind        string // world | compile | probe
		nchoices    int
	}
	by := map[string]item{}
	for _, v := range m1.violations {
		b, _ := json.MarshalIndent(v, "", " ")
		k := "world"
		if v.Mode == "compile" {
			k = "compile"
		}
		if old, ok := by[v.Sig]; !ok || len(v.Choices) < old.nchoices {
			by[v.Sig] = item{v.Sig, v.Detail, b, k, len(v.Choices)}
		}
	}
	for _, v := range m2.violations {
		if old, ok := by[v.Sig]; !ok || len(v.Choices) < old.nchoices {
			by[v.Sig] = item{v.Sig, v.Detail, v.raw, "probe", len(v.Choices)}
		}
	}
	var sigs []string
	for k := range by {
		sigs = append(sigs, k)
	}
	sort.Strings(sigs)
	newViol, known := 0, 0
	var notReproduced []string
	for n, sig := range sigs {
		it := by[sig]
		path := filepath.Join(repDir, fmt.Sprintf("%s-%d-%d.json", o.prop, o.seed, n))
		if err := os.WriteFile(path, it.raw, 0644); err != nil {
			fatal2("writing replay: %v", err)
		}
		switch it.kind {
		case "world":
			outp, code := runReplay(s, path)
			if code == 10 {
				fmt.Printf("NOTE: %s %s not counted: in-process state artefact [replay=%s]\n", o.prop, sig, path)
				continue
			}
			if code != 1 || !strings.Contains(outp, "REPRODUCED") || strings.Contains(outp, "NOT-REPRODUCED") {
				fatal2("violation %s (%s) did not reproduce from %s in a fresh process:\n%s", o.prop, sig, path, outp)
			}
		case "probe":
			outp, code := runProbeReplay(s, probe, path)
			if code != 1 || !strings.Contains(outp, "REPRODUCED") || strings.Contains(outp, "NOT-REPRODUCED") {
				// not believed, never a VIOLATION; if nothing else reproduces either, the check ends with exit 2
				notReproduced = append(notReproduced, fmt.Sprintf("violation %s (%s) did not reproduce from %s in a fresh process:\n%s", o.prop, sig, path, tailStr(outp, 1500)))
				fmt.Printf("NOTE: %s %s not counted: it did not reproduce in a fresh process [replay=%s]\n", o.prop, sig, path)
				continue
			}
		}
		if f := matchFinding(findings, o.prop, sig); f != nil {
			known++
			fmt.Printf("KNOWN-FINDING: property=%s %s [sig=%s replay=%s]\n", o.prop, f.What, sig, path)
			continue
		}
		newViol++
		fmt.Printf("VIOLATION property=%s replay=%s\n  signature: %s\n", o.prop, path, sig)
		for i, l := range strings.Split(strings.TrimSpace(it.detail), "\n") {
			if i > 40 {
				fmt.Println("  ...")
				break
			}
			if len(l) > 300 {
				l = l[:300] + "..."
			}
			fmt.Printf("  %s\n", l)
		}
	}
	wall := since(t0)
	st := m2.stats
	evals := st.Runs + g.Builds
	cov := map[string]any{
		"evaluations":                  evals,
		"distinct_nontrivial":          len(m2.distinct),
		"rule":                         ruleText2[o.prop],
		"samples":                      st.Samples,
		"simulated_runs":               st.Runs,
		"runs_per_hour":                int(float64(st.Runs) / wall * 3600),
		"seeds_per_hour":               int(float64(st.Runs) / wall * 3600),
		"simulated_time":               fmt.Sprintf("%d scheduler steps over %d runs (the system has no clock or timers; simulated time is counted in scheduling steps)", st.Steps, st.Runs),
		"client_operations":            st.Ops,
		"operation_kinds":              st.OpKinds,
		"scheduler_policies":           st.Policies,
		"contended_decisions":          st.Contended,
		"lock_blocks":                  st.Blocks,
		"distinct_interleavings":       len(m2.interleave),
		"interleaving_measure":         "distinct (configuration, sequence of tasks chosen at decisions with more than one runnable task)",
		"run_outcomes":                 st.Outcomes,
		"probes":                       st.Probes,
		"effective_scopes_seen":        st.Scopes,
		"fault_kinds_fired":            st.Faults,
		"runs_per_configuration":       st.PerConfig,
		"configurations_drawn":         len(g.Items),
		"configurations_built":         g.Builds,
		"configurations_not_compiling": nbroken,
		"known_findings_hit":           known,
		"exhaustive":                   false,
		"components": map[string]any{
			"real_code": []string{"the generated containers (output of the working tree's build command; rewritten only: a scheduler yield before every statement, sync -> simsync, os env calls)",
				"the whole build pipeline of /repo that produced them (engine 1, fault-free, random map schedule)", "gontainer-helpers runtime: container, caller, copier, exporter, setter, grouperror, graph (rewritten only at map ranges and sync.{Mutex,RWMutex,Once})"},
			"simulated": []string{"goroutine scheduler: exactly one client task runs, the next is drawn from the seed at every yield point (5 policies); hand-off by raw futex in norace code so the race detector sees only the program's own synchronisation",
				"blocking of sync.Mutex/RWMutex/Once (real primitives underneath via Try*, so happens-before edges are the real ones; writer preference modelled)", "user application code: fixture package fx (constructors, methods, decorators, parameter functions with event log, yields and injectable failures)", "process environment for env()/envInt()"},
			"stub": []string{"fx stands in for user code"},
		},
	}
	switch o.prop {
	case "C15":
		cov["exhaustive_subspace"] = fmt.Sprintf("all %d histories of length 1..4 over an 12-operation alphabet {GetParam p1|p2|p3|p4|p5, Get s1|s2|s3, OverrideParam p1:=value, p1:=param p3, p3:=provider, OverrideService s1} on the configuration {p1=%%todo(\"quota reached: 90%%%% of %%%%d (see %%%%s)\")%%, p2=%%p1%%-x, p3=7, p4=%%todo()%%, p5=%%todo(\"\")%%, s1 todo, s2(@s1,%%p2%%), s3(%%p3%%)} were executed and compared with the model", st.Probes["exhaustive-histories-up-to-length-4"])
	case "C20":
		cov["enumerated_family_members"] = fmt.Sprintf("%d configurations of the small-graph family of C05 (bare values, decorators, tags, every scope assignment) are part of the batch", engine2Tiers["C20"][o.tier].nenum)
	case "C05":
		cov["exhaustive_subspace"] = fmt.Sprintf("%d configurations of the enumerated family (13 small shapes: argument chain, field+call fan-out, tag edge, decorator edge, two decorators on two tags in both orders, chain ending in a scoped todo placeholder, decorated bare value with typed getters, two calls injecting b and c, a tag consumed only by a decorator argument, one decorator function twice on a tag with different arguments, a decorator on the tag star, a diamond with an onlooker that sorts first; every third member also with a reference to an undefined service under --ignore-missing-services, every fifth built with --stub) x scope assignments {unset,shared,contextual,non_shared}^3 (832 in the thorough tier = the whole family) had their verdict compared with the legality model and, if accepted, were run under drawn histories", engine2Tiers["C05"][o.tier].nenum)
	}
	ev := &Evidence{PropertyID: o.prop, Tier: o.tier, Seed: int64(o.seed), Level: "exploration", Coverage: cov, Assumptions: assumptions2[o.prop], WallS: wall, Violations: newViol}
	if evals == 0 {
		fatal2("no case was evaluated")
	}
	if len(m2.distinct) < 2 && newViol == 0 && known == 0 {
		fatal2("fewer than 2 distinct runs were executed (%d): the batch is not evidence", len(m2.distinct))
	}
	writeEvidence(ev)
	fmt.Printf("vcheck %s: %d configurations, %d simulated runs (%d ops, %d steps, %d contended decisions, %d distinct interleavings), %d new violation(s), %d known finding(s), %.0fs\n",
		o.prop, len(g.Items), st.Runs, st.Ops, st.Steps, st.Contended, len(m2.interleave), newViol, known, wall)
	if newViol > 0 {
		return 1
	}
	if len(notReproduced) > 0 && known == 0 {
		fatal2("%s", strings.Join(notReproduced, "\n"))
	}
	if len(m2.watchdogs) > 0 {
		fatal2("%s", strings.Join(m2.watchdogs, "\n"))
	}
	return 0
}

func runProbeReplay(s *prep.Scratch, probe, path string) (string, int) {
	cmd := exec.Command(probe, "replay", "-file", path)
	cmd.Dir = s.Dir
	racelog := filepath.Join(s.Dir, "race-replay")
	cmd.Env = append(os.Environ(), "VERIFSIM_RACELOG="+racelog, "GORACE=log_path="+racelog+" halt_on_error=0 exitcode=0 history_size=2")
	var b bytes.Buffer
	cmd.Stdout, cmd.Stderr = &b, &b
	err := cmd.Run()
	code := 0
	if ee, ok := err.(*exec.ExitError); ok {
		code = ee.ExitCode()
	} else if err != nil {
		code = 2
	}
	return b.String(), code
}

// replayEngine2 rebuilds a one-configuration probe from the replay file and re-executes the plan.
func replayEngine2(o opts, path string) int {
	b, err := os.ReadFile(path)
	if err != nil {
		fatal2("%v", err)
	}
	var v struct {
		Property string `json:"property"`
		Cfg      struct {
			Meta struct {
				Pkg   *string `json:"pkg"`
				CType *string `json:"ctype"`
				CCtor *string `json:"cctor"`
			} `json:"meta"`
		} `json:"cfg"`
	}
	if err := json.Unmarshal(b, &v); err != nil {
		fatal2("%v", err)
	}
	s, err := prep.Buildsim(o.repo)
	defer s.Cleanup()
	if err != nil {
		fatal2("%v", err)
	}
	gendir := filepath.Join(s.Dir, "gen")
	cmd := exec.Command(s.Worker, "genone", "-file", path, "-out", gendir)
	cmd.Dir = s.Dir
	if out, err := cmd.CombinedOutput(); err != nil {
		fatal2("regenerating the container failed: %v\n%s", err, out)
	}
	d := func(p *string, def string) string {
		if p != nil {
			return *p
		}
		return def
	}
	items := []prep.ProbeItem{{Name: d(v.Cfg.Meta.Pkg, "c000"), CType: d(v.Cfg.Meta.CType, "Gontainer"), CCtor: d(v.Cfg.Meta.CCtor, "NewGontainer")}}
	probe, broken, _, err := prep.Probe(s, gendir, items, v.Property == "C20")
	if err != nil {
		fatal2("%v", err)
	}
	if len(broken) > 0 {
		fmt.Printf("REPRODUCED property=%s sig=generated-code-does-not-compile\n%v\nVIOLATION property=%s replay=%s\n", v.Property, broken, v.Property, path)
		return 1
	}
	out, code := runProbeReplay(s, probe, path)
	fmt.Print(out)
	if code == 1 {
		fmt.Printf("VIOLATION property=%s replay=%s\n", v.Property, path)
	}
	return code
}

var ruleText2 = map[string]string{
	"C05": "one case = (one of the batch's accepted runnable configurations: 2-6 pointer-typed services over the fixture universe with every scope keyword incl. unset, dependency edges through arguments / fields / calls / !tagged / decorators, split over 1-3 files with drawn key order) x (a drawn history of <=10 operations from {Get, GetInContext(c1..c3), GetTaggedBy[InContext], typed getters incl. Must*/InContext} run by 1 task (half of the cases) or 2-4 interleaved tasks under the seeded scheduler); judged by the scope identity model. Before that every drawn configuration's accept/reject verdict is compared with the model's legality verdict. distinct = distinct (configuration, plan, decision trace)",
	"C15": "one case = (an accepted configuration with any subset of parameters/services marked todo, env/envInt/function parameters) x (a drawn sequential history of <=12 operations from {New, GetParam, Get, OverrideParam(value|param|provider), OverrideService, SetEnv, UnsetEnv, ArmFailure}); every operation's outcome is compared with the todo/override/laziness reference model. distinct = distinct (configuration, history)",
	"C20": "one case = (an accepted legal configuration) x (2-8 client tasks with <=24 reader operations in total incl. GetParam, biased to meet on the same services) x (a seeded schedule: policy, PRNG); checked: race detector silent under that schedule, each shared service constructed and each function parameter evaluated at most once, identity model incl. context isolation, every operation returns. distinct = distinct (configuration, plan, decision trace)",
}

var assumptions2 = map[string][]string{
	"C05": {"the fixture universe fx stands in for user code; only pointer-typed services carry an observable identity", "constructor failures are not armed in this check: every operation must succeed",
		"interleaved histories use reader operations only", "goroutines created by context.AfterFunc run only after the controlled phase (contexts are cancelled at the end)"},
	"C15": {"sequential histories only: the property quantifies over histories, not schedules", "parameter values are restricted to int/string so that the reference model is exact",
		"already constructed dependants are not judged after an override (the property speaks about dependants not yet constructed)"},
	"C20": {"reader operations only (Get, GetInContext, GetParam, GetTaggedBy[InContext], typed getters), as the property lists", "a race report is attributed to the run during which the race detector's log grew; the detector reports each distinct race once per process",
		"evaluations of env()/envInt() parameters cannot be counted; only function parameters are", "step cap 200000 decisions per run"},
}
