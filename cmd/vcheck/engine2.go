package main

func runEngine2(o opts) int {
	fatal2("engine 2 is not built yet")
	return 2
}

func replayEngine2(o opts, path string) int {
	fatal2("engine 2 is not built yet")
	return 2
}
