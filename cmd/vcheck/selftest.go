package main

import (
	"fmt"
	"strings"

	"verif/prep"
)

// selftest: same-seed runs must produce identical event logs, across processes and worker
// counts. Any divergence is exit 2 until explained (DESIGN.md 7.1).
func selftest(o opts, engine int) int {
	if engine == 2 {
		return selftestEngine2(o)
	}
	s, err := prep.Buildsim(o.repo)
	defer s.Cleanup()
	if err != nil {
		fatal2("%v", err)
	}
	cases := 320
	if o.cases > 0 {
		cases = o.cases
	}
	bad := 0
	for _, prop := range []string{"C08", "C10", "C12", "C19"} {
		var logs []string
		for _, workers := range []int{16, 5, 1} {
			oo := o
			oo.prop, oo.workers = prop, workers
			n := cases
			if workers == 1 {
				n = cases / 8
			}
			m := runWorkers(s, oo, n, 600, "-eventlog", "-shrink", "0")
			logs = append(logs, strings.Join(m.eventLogs, "\n"))
		}
		// the 1-worker log covers a prefix of the indices: compare on the common index set
		same := logs[0] == logs[1]
		idx := map[string]bool{}
		for _, l := range strings.Split(logs[2], "\n") {
			idx[l] = true
		}
		sub := 0
		for _, l := range strings.Split(logs[0], "\n") {
			if idx[l] {
				sub++
			}
		}
		ok := same && sub == len(idx)
		fmt.Printf("selftest engine1 %s: %d cases x {16,5} workers identical=%v; 1-worker prefix matched %d/%d\n", prop, cases, same, sub, len(idx))
		if !ok {
			bad++
		}
	}
	if bad > 0 {
		fatal2("same-seed runs diverged: the simulation is not deterministic")
	}
	return 0
}

func selftestEngine2(o opts) int {
	fatal2("engine 2 is not built yet")
	return 2
}
