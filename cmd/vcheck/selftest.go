package main

import (
	"encoding/json"
	"fmt"
	"os"
	"os/exec"
	"path/filepath"
	"strings"

	"verif/prep"
)

// selftest: same-seed runs must produce identical event logs, across processes and worker
// counts. Any divergence is exit 2 until explained (DESIGN.md 7.1).
func selftest(o opts, engine int) int {
	if engine == 2 {
		return selftestEngine2(o)
	}
	s, err := prep.Buildsim(o.repo)
	defer s.Cleanup()
	if err != nil {
		fatal2("%v", err)
	}
	os.Setenv("VERIFSIM_REPO", s.Pristine)
	cases := 320
	if o.cases > 0 {
		cases = o.cases
	}
	bad := 0
	for _, prop := range []string{"C08", "C10", "C12", "C19"} {
		var logs []string
		for _, workers := range []int{16, 5, 1} {
			oo := o
			oo.prop, oo.workers = prop, workers
			n := cases
			if workers == 1 {
				n = cases / 8
			}
			m := runWorkers(s, oo, n, 600, "-eventlog", "-shrink", "0")
			logs = append(logs, strings.Join(m.eventLogs, "\n"))
		}
		// the 1-worker log covers a prefix of the indices: compare on the common index set
		same := logs[0] == logs[1]
		idx := map[string]bool{}
		for _, l := range strings.Split(logs[2], "\n") {
			idx[l] = true
		}
		sub := 0
		for _, l := range strings.Split(logs[0], "\n") {
			if idx[l] {
				sub++
			}
		}
		ok := same && sub == len(idx)
		fmt.Printf("selftest engine1 %s: %d cases x {16,5} workers identical=%v; 1-worker prefix matched %d/%d\n", prop, cases, same, sub, len(idx))
		if !ok {
			bad++
			a, b := strings.Split(logs[0], "\n"), strings.Split(logs[1], "\n")
			shown := 0
			for k := 0; k < len(a) && k < len(b) && shown < 5; k++ {
				if a[k] != b[k] {
					fmt.Printf("  differs: %q vs %q\n", a[k], b[k])
					shown++
				}
			}
			for _, l := range strings.Split(logs[2], "\n") {
				found := false
				for _, x := range a {
					if x == l {
						found = true
						break
					}
				}
				if !found && shown < 10 {
					fmt.Printf("  1-worker line without a match: %q\n", l)
					shown++
				}
			}
		}
	}
	if bad > 0 {
		fatal2("same-seed runs diverged: the simulation is not deterministic")
	}
	return 0
}

func selftestEngine2(o opts) int {
	s, err := prep.Buildsim(o.repo)
	defer s.Cleanup()
	if err != nil {
		fatal2("%v", err)
	}
	bad := 0
	for _, prop := range []string{"C05", "C15", "C20"} {
		oo := o
		oo.prop = prop
		gendir := filepath.Join(s.Dir, "gen-"+prop)
		genJSON := filepath.Join(s.Dir, "genout-"+prop+".json")
		cmd := exec.Command(s.Worker, "genbatch", "-prop", prop, "-seed", fmt.Sprint(o.seed), "-to", "12", "-file", gendir, "-out", genJSON)
		cmd.Dir = s.Dir
		if out, err := cmd.CombinedOutput(); err != nil {
			fatal2("genbatch: %v\n%s", err, out)
		}
		var g genOut
		b, _ := os.ReadFile(genJSON)
		_ = json.Unmarshal(b, &g)
		var items []prep.ProbeItem
		for _, it := range g.Items {
			if it.Exit == 0 {
				items = append(items, prep.ProbeItem{Name: it.Name, CType: it.CType, CCtor: it.CCtor})
			}
		}
		probe, _, _, err := prep.Probe(s, gendir, items, prop == "C20")
		if err != nil {
			fatal2("%v", err)
		}
		cases := 1600
		if o.cases > 0 {
			cases = o.cases
		}
		var logs []string
		for _, spec := range []struct {
			workers int
			procs   string
		}{{16, "16"}, {7, "4"}, {16, "1"}, {3, "16"}} {
			oo.workers = spec.workers
			os.Setenv("GOMAXPROCS", spec.procs)
			m := runProbeWorkers(s, probe, oo, cases, 900, prop == "C20", "-eventlog", "-shrink", "0")
			logs = append(logs, strings.Join(m.eventLogs, "\n"))
		}
		os.Unsetenv("GOMAXPROCS")
		same := true
		for _, l := range logs[1:] {
			if l != logs[0] {
				same = false
			}
		}
		fmt.Printf("selftest engine2 %s: %d cases x {16w/16p, 7w/4p, 16w/1p, 3w/16p}: event logs identical=%v (%d lines)\n", prop, cases, same, len(strings.Split(logs[0], "\n")))
		if !same {
			bad++
			for i, l := range logs[1:] {
				a, b := strings.Split(logs[0], "\n"), strings.Split(l, "\n")
				for k := 0; k < len(a) && k < len(b); k++ {
					if a[k] != b[k] {
						fmt.Printf("  first difference vs run %d: %q vs %q\n", i+1, a[k], b[k])
						break
					}
				}
			}
		}
	}
	if bad > 0 {
		fatal2("same-seed runs diverged: engine 2 is not deterministic")
	}
	return 0
}
