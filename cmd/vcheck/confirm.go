package main

import (
	"bytes"
	"crypto/sha256"
	"encoding/hex"
	"fmt"
	"os"
	"os/exec"
	"path/filepath"
	"sort"
	"strings"
	"time"

	"verif/prep"
	"verifsim/bsim"
	"verifsim/choice"
)

// Confirmation on the uninstrumented binary (DESIGN.md 3.5): a divergence between twin runs that
// does not involve injected faults is re-enacted with the real command-line tool, built from the
// same tree without any rewriting, in real directories. This guards against artefacts of the
// rewriter and of the simulation runtime.
//
//	deterministic dimensions (environment, cwd, key order, run-from, previous output):
//	    both worlds are run once; they must differ the same way -> "confirmed", else "refuted"
//	map-iteration schedule: the base world is run up to 48 times; two different outcomes -> "confirmed",
//	    otherwise "unconfirmed" (the real map order is random; the simulation stays the authority)
//	anything with faults, listing order, clock/random: "n/a"

func realBinary(s *prep.Scratch) (string, error) {
	bin := filepath.Join(s.Dir, "gontainer-real")
	if _, err := os.Stat(bin); err == nil {
		return bin, nil
	}
	cmd := exec.Command("go", "build", "-o", bin, ".")
	cmd.Dir = s.PristineTree
	cmd.Env = append(os.Environ(), prep.GoEnv()...)
	if out, err := cmd.CombinedOutput(); err != nil {
		return "", fmt.Errorf("building the uninstrumented binary: %v\n%s", err, out)
	}
	return bin, nil
}

type realResult struct {
	exit   int
	stdout string
	out    string // sha of the bytes at -o (through links), "" if none
}

func runReal(bin string, w *bsim.World, root string) (realResult, error) {
	var rr realResult
	if w.AbsInputs || len(w.Faults) > 0 || filepath.IsAbs(w.Out) {
		return rr, fmt.Errorf("not re-enactable")
	}
	_ = os.RemoveAll(root)
	cwd := filepath.Join(root, "w")
	if w.CwdSub != "" {
		cwd = filepath.Join(root, w.CwdSub, "w")
	}
	home := filepath.Join(root, "home")
	for _, d := range []string{cwd, home} {
		if err := os.MkdirAll(d, 0755); err != nil {
			return rr, err
		}
	}
	in := func(p string) string { return filepath.Join(cwd, p) }
	for _, d := range w.Dirs {
		_ = os.MkdirAll(in(d), 0755)
	}
	for fi, f := range w.Files {
		_ = os.MkdirAll(filepath.Dir(in(f.Path)), 0755)
		if f.Kind == "link" {
			store := filepath.Join(root, "store")
			_ = os.MkdirAll(store, 0755)
			target := filepath.Join(store, fmt.Sprintf("f%d.data", fi))
			if err := os.WriteFile(target, []byte(f.Content), 0644); err != nil {
				return rr, err
			}
			if err := os.Symlink(target, in(f.Path)); err != nil {
				return rr, err
			}
			continue
		}
		if f.Kind != "" {
			return rr, fmt.Errorf("not re-enactable")
		}
		if err := os.WriteFile(in(f.Path), []byte(f.Content), 0644); err != nil {
			return rr, err
		}
	}
	for fi, f := range w.Files {
		// same metadata rule as the simulated world (bsim.Exec)
		at := time.Now().Add(-2 * time.Hour)
		if w.MetaSeed != 0 {
			at = time.Now().Add(-240*time.Hour + time.Duration(choice.Mix(w.MetaSeed, uint64(2000+fi))%(264*3600))*time.Second)
			_ = os.Chmod(in(f.Path), []os.FileMode{0600, 0644, 0664, 0444, 0755, 0640}[choice.Mix(w.MetaSeed, uint64(1000+fi))%6])
		}
		_ = os.Chtimes(in(f.Path), at, at)
	}
	if w.CwdGo {
		_ = os.WriteFile(in("zz_unrelated.go"), []byte("package unrelated\n\nimport \"strings\"\n\nvar Cfg = struct{ Field string }{strings.ToUpper(\"x\")}\n"), 0644)
	}
	switch w.OutKind {
	case "file":
		_ = os.MkdirAll(filepath.Dir(in(w.Out)), 0755)
		if w.PreOut != nil {
			_ = os.WriteFile(in(w.Out), []byte(w.PreOut.Content), os.FileMode(w.PreOut.Mode))
		}
	case "symlink-dangling":
		_ = os.MkdirAll(filepath.Dir(in(w.Out)), 0755)
		_ = os.Symlink("real_behind_link.go", in(w.Out))
	default:
		return rr, fmt.Errorf("not re-enactable")
	}
	run := cwd
	up := ""
	if w.RunFrom != "" {
		run = filepath.Join(cwd, w.RunFrom)
		_ = os.MkdirAll(run, 0755)
		up = strings.Repeat("../", strings.Count(filepath.Clean(w.RunFrom), "/")+1)
	}
	args := []string{"build"}
	for _, p := range w.Patterns {
		if !filepath.IsAbs(p) {
			p = up + p
		}
		args = append(args, "-i", p)
	}
	args = append(args, "-o", up+w.Out)
	args = append(args, w.Flags...)
	cmd := exec.Command(bin, args...)
	cmd.Dir = run
	env := map[string]string{"PATH": "/usr/bin:/bin", "HOME": home, "GOFLAGS": "-mod=mod", "GOPROXY": "off", "GOSUMDB": "off", "GOTOOLCHAIN": "local", "GOCACHE": "/root/.cache/go-build"}
	if w.NoGo {
		env["PATH"] = "/nonexistent"
	}
	for k, v := range w.Env {
		env[k] = v
	}
	keys := make([]string, 0, len(env))
	for k := range env {
		keys = append(keys, k)
	}
	sort.Strings(keys)
	for _, k := range keys {
		cmd.Env = append(cmd.Env, k+"="+env[k])
	}
	var ob bytes.Buffer
	cmd.Stdout = &ob
	err := cmd.Run()
	if ee, ok := err.(*exec.ExitError); ok {
		rr.exit = ee.ExitCode()
	} else if err != nil {
		return rr, err
	}
	rr.stdout = ob.String()
	if b, err := os.ReadFile(in(w.Out)); err == nil {
		// the version line carries the real binary's own build info in both runs alike
		h := sha256.Sum256(b)
		rr.out = hex.EncodeToString(h[:])
	}
	_ = os.RemoveAll(root)
	return rr, nil
}

// confirmReal returns "confirmed", "refuted", "unconfirmed" or "n/a" with a short explanation.
func confirmReal(s *prep.Scratch, v *bsim.Violation) (string, string) {
	if (v.Mode != "twin-all" && v.Mode != "twin-out") || len(v.Worlds) != 2 {
		return "n/a", ""
	}
	sig := strings.TrimPrefix(v.Sig, "dotpkg|")
	dim := sig
	if i := strings.Index(sig, ":"); i > 0 {
		dim = sig[:i]
	}
	switch dim {
	case "env", "cwd", "keyorder", "run-from", "previous-output", "map", "file-metadata", "linked-inputs":
	default:
		return "n/a", ""
	}
	if v.Worlds[0].Version != "" || v.Worlds[0].Commit != "" || v.Worlds[0].Date != "" || v.Worlds[0].Dirty != "" {
		// the real binary carries its own build info; the simulated one is part of the world
		return "n/a", "world sets build info"
	}
	bin, err := realBinary(s)
	if err != nil {
		return "n/a", err.Error()
	}
	root := filepath.Join(s.Dir, "real-run")
	outOnly := v.Mode == "twin-out"
	differs := func(a, b realResult) bool {
		return a.exit != b.exit || a.out != b.out || (!outOnly && a.stdout != b.stdout)
	}
	a, err := runReal(bin, v.Worlds[0], root)
	if err != nil {
		return "n/a", err.Error()
	}
	if dim == "map" {
		for i := 0; i < 48; i++ {
			b, err := runReal(bin, v.Worlds[0], root)
			if err != nil {
				return "n/a", err.Error()
			}
			if differs(a, b) {
				return "confirmed", fmt.Sprintf("the uninstrumented binary produced two different outcomes for the same world within %d runs", i+2)
			}
		}
		return "unconfirmed", "48 runs of the uninstrumented binary gave one outcome (real map order is random; the simulated schedule stays the authority)"
	}
	b, err := runReal(bin, v.Worlds[1], root)
	if err != nil {
		return "n/a", err.Error()
	}
	if differs(a, b) {
		return "confirmed", "the uninstrumented binary shows the same divergence between the two worlds"
	}
	return "refuted", "the uninstrumented binary behaves identically in the two worlds"
}
