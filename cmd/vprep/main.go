// vprep: development helper — builds the engine-1 scratch and prints where it is.
package main

import (
	"encoding/json"
	"fmt"
	"os"

	"verif/prep"
)

func main() {
	os.Setenv("VERIF_KEEP", "1")
	s, err := prep.Buildsim("/repo")
	if err != nil {
		fmt.Println("ERR", err)
		os.Exit(2)
	}
	b, _ := json.MarshalIndent(s, "", " ")
	fmt.Println(string(b))
}
