// Package choice is the single source of nondeterminism of a simulated run.
//
// Every decision of a run (generated world, map-iteration schedule, listing order,
// environment, fault plan, goroutine schedule) is a Draw from one Src. A Src either
// generates draws from a PRNG seeded by one integer, or replays a recorded sequence.
// Every draw is recorded with its label, so a run can be replayed exactly, checked for
// divergence, and shrunk by editing the recorded sequence (Hypothesis style).
//
// Logging never draws and never reads a clock.
package choice

import (
	"fmt"
)

// splitmix64 / xoshiro-free minimal PRNG: deterministic across Go versions and platforms.
type rng struct{ s uint64 }

func (r *rng) next() uint64 {
	r.s += 0x9e3779b97f4a7c15
	z := r.s
	z = (z ^ (z >> 30)) * 0xbf58476d1ce4e5b9
	z = (z ^ (z >> 27)) * 0x94d049bb133111eb
	return z ^ (z >> 31)
}

// Mix derives a sub-seed from a seed and a stream index.
func Mix(seed uint64, idx uint64) uint64 {
	r := rng{s: seed ^ (idx+1)*0xd1342543de82ef95}
	r.next()
	return r.next()
}

// MixS derives a sub-seed from a seed and a string.
func MixS(seed uint64, s string) uint64 {
	h := uint64(1469598103934665603)
	for i := 0; i < len(s); i++ {
		h ^= uint64(s[i])
		h *= 1099511628211
	}
	return Mix(seed, h)
}

type Rec struct {
	Label string `json:"l"`
	N     int    `json:"n"`
	V     int    `json:"v"`
}

type Src struct {
	r      rng
	replay []int // values to replay; nil => generate
	strict []Rec // when non-nil, replay must match labels and bounds exactly
	pos    int
	Log    []Rec
	// Diverged is set when a strict replay met a label/bound mismatch or ran out.
	Diverged string
	// Overrun counts draws made after the replay sequence was exhausted (non-strict).
	Overrun int
	NoLog   bool
}

func New(seed uint64) *Src { return &Src{r: rng{s: seed}} }

// Replay interprets vals as the draw sequence; draws beyond the end return 0.
func Replay(vals []int) *Src { return &Src{replay: append([]int{}, vals...), strict: nil, pos: 0} }

// ReplayStrict replays a recorded log and records a divergence if labels differ.
func ReplayStrict(log []Rec) *Src {
	v := make([]int, len(log))
	for i, r := range log {
		v[i] = r.V
	}
	return &Src{replay: v, strict: log}
}

func (s *Src) Replaying() bool { return s.replay != nil }

// Draw returns a value in [0,n). n must be >= 1.
func (s *Src) Draw(label string, n int) int {
	if n <= 0 {
		panic(fmt.Sprintf("choice.Draw(%q, %d)", label, n))
	}
	var v int
	if s.replay != nil {
		if s.pos < len(s.replay) {
			v = s.replay[s.pos]
			if s.strict != nil {
				e := s.strict[s.pos]
				if (e.Label != label || e.N != n) && s.Diverged == "" {
					s.Diverged = fmt.Sprintf("draw #%d: recorded %s/%d, now %s/%d", s.pos, e.Label, e.N, label, n)
				}
			}
			if v < 0 {
				v = 0
			}
			if v >= n {
				v = v % n
			}
		} else {
			s.Overrun++
			if s.strict != nil && s.Diverged == "" {
				s.Diverged = fmt.Sprintf("draw #%d (%s/%d) beyond recorded log", s.pos, label, n)
			}
			v = 0
		}
		s.pos++
	} else {
		if n == 1 {
			v = 0
		} else {
			v = int(s.r.next() % uint64(n))
		}
	}
	if !s.NoLog {
		s.Log = append(s.Log, Rec{label, n, v})
	}
	return v
}

func (s *Src) Bool(label string) bool { return s.Draw(label, 2) == 1 }

// Chance returns true with probability num/den.
func (s *Src) Chance(label string, num, den int) bool { return s.Draw(label, den) < num }

// Range returns a value in [lo,hi].
func (s *Src) Range(label string, lo, hi int) int { return lo + s.Draw(label, hi-lo+1) }

func Pick[T any](s *Src, label string, xs []T) T { return xs[s.Draw(label, len(xs))] }

// Perm returns a permutation of 0..n-1 (Fisher-Yates; identity when all draws are 0).
func (s *Src) Perm(label string, n int) []int {
	p := make([]int, n)
	for i := range p {
		p[i] = i
	}
	for i := 0; i < n-1; i++ {
		j := i + s.Draw(label, n-i)
		p[i], p[j] = p[j], p[i]
	}
	return p
}

// Values returns the recorded draw values.
func (s *Src) Values() []int {
	v := make([]int, len(s.Log))
	for i, r := range s.Log {
		v[i] = r.V
	}
	return v
}

// Shrink minimises a failing draw sequence. fails must be a pure function of the sequence
// (it re-generates and re-runs the case) and return true when the *same class* of failure
// still occurs. budget bounds the number of fails() evaluations.
func Shrink(vals []int, budget int, fails func([]int) bool) []int {
	cur := append([]int{}, vals...)
	try := func(c []int) bool {
		if budget <= 0 {
			return false
		}
		budget--
		if fails(c) {
			cur = append([]int{}, c...)
			return true
		}
		return false
	}
	trim := func() {
		// trailing zeros are implied
		for len(cur) > 0 && cur[len(cur)-1] == 0 {
			cur = cur[:len(cur)-1]
		}
	}
	trim()
	improved := true
	for improved && budget > 0 {
		improved = false
		// 1. delete spans (large to small)
		for size := len(cur) / 2; size >= 1; size /= 2 {
			for i := 0; i+size <= len(cur) && budget > 0; {
				c := append(append([]int{}, cur[:i]...), cur[i+size:]...)
				if try(c) {
					improved = true
				} else {
					i += size
				}
			}
		}
		// 2. zero spans
		for size := len(cur) / 2; size >= 1; size /= 2 {
			for i := 0; i+size <= len(cur) && budget > 0; i += size {
				allz := true
				for _, x := range cur[i : i+size] {
					if x != 0 {
						allz = false
					}
				}
				if allz {
					continue
				}
				c := append([]int{}, cur...)
				for k := i; k < i+size; k++ {
					c[k] = 0
				}
				if try(c) {
					improved = true
				}
			}
		}
		// 3. reduce single values
		for i := 0; i < len(cur) && budget > 0; i++ {
			for cur[i] > 0 && budget > 0 {
				c := append([]int{}, cur...)
				c[i] = cur[i] / 2
				if try(c) {
					improved = true
					continue
				}
				c[i] = cur[i] - 1
				if try(c) {
					improved = true
					continue
				}
				break
			}
		}
		trim()
	}
	return cur
}
