module verifsim

go 1.21
