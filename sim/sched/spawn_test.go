package sched

import (
	"context"
	"fmt"
	"testing"
)

// goroutines started through Go become tasks; Recv/Send/Poll keep waiting tasks schedulable; one seed is
// one interleaving.
func runSpawn(seed uint64, policy int) (string, *Result) {
	base := Now()             // the sequence counter runs on across runs
	logs := make([]string, 3) // one per task: a shared string would be a (reported) data race
	fns := make([]func(), 3)
	for i := range fns {
		i := i
		fns[i] = func() {
			ch := make(chan int)
			done := make(chan struct{})
			ctx, cancel := context.WithCancel(context.Background())
			Go(func() {
				defer close(done)
				for k := 0; k < 3; k++ {
					Yield("producer")
					Send(ch, i*10+k)
				}
			})
			for k := 0; k < 3; k++ {
				v := Recv(ch)
				logs[i] += fmt.Sprintf("t%d:%d@%d ", i, v, Now()-base)
				Yield("consumer")
			}
			cancel()
		wait:
			select {
			case <-done:
			case <-ctx.Done():
			default:
				Poll("select")
				goto wait
			}
		}
	}
	r := Run(Config{Seed: seed, Policy: policy, StepCap: 100000}, fns)
	return fmt.Sprint(logs), r
}

func TestSpawnedTasksAreScheduledDeterministically(t *testing.T) {
	distinct := map[string]bool{}
	for seed := uint64(1); seed <= 40; seed++ {
		for pol := 0; pol < NPolicies; pol++ {
			a, ra := runSpawn(seed, pol)
			b, rb := runSpawn(seed, pol)
			if ra.Outcome != "finished" || rb.Outcome != "finished" {
				t.Fatalf("seed %d policy %d: outcome %s / %s", seed, pol, ra.Outcome, rb.Outcome)
			}
			if a != b || fmt.Sprint(ra.Trace) != fmt.Sprint(rb.Trace) {
				t.Fatalf("seed %d policy %d: same seed, different runs:\n%s\n%s", seed, pol, a, b)
			}
			distinct[a] = true
		}
	}
	if len(distinct) < 20 {
		t.Fatalf("only %d distinct interleavings over 200 seeds x policies", len(distinct))
	}
}

// a task waiting on a channel nobody serves is reported as a deadlock, not spun on for ever
func TestUnservedChannelIsADeadlock(t *testing.T) {
	r := Run(Config{Seed: 7, StepCap: 1 << 19}, []func(){func() {
		ch := make(chan int)
		Go(func() { Yield("idle") })
		Recv(ch)
	}})
	if r.Outcome != "deadlock" {
		t.Fatalf("outcome %s, want deadlock", r.Outcome)
	}
}
