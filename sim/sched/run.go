package sched

import (
	"fmt"
	"reflect"
	"sync"
	"sync/atomic"
	"syscall"
	"time"
	"unsafe"
)

type Config struct {
	Seed    uint64
	Policy  int
	StepCap int
	Replay  []uint8 // decisions at contended points; nil = draw from the PRNG
}

type Result struct {
	Outcome   string // finished | deadlock | stepcap
	Steps     int
	Contended int
	Blocks    int
	Trace     []uint8 // task chosen at every contended decision
	Blocked   []int   // tasks still blocked at the end (deadlock)
	Polling   int     // tasks still waiting for a channel operation at the end
	Spawned   int     // goroutines the program started (tasks of the simulation)
	Events    []Event
	Panics    []any
}

// Run executes the task functions under the seeded scheduler and returns when all finished,
// or on deadlock / step cap. The final hand-back to the caller goes through a real WaitGroup
// (only for tasks that ran to completion), which gives the caller - and only the caller - a
// happens-before edge from every task's end.
func Run(cfg Config, fns []func()) *Result {
	if len(fns) > MaxTasks {
		panic("too many tasks")
	}
	setup(cfg, len(fns))
	var wg sync.WaitGroup
	panics := make([]any, len(fns))
	for i := range fns {
		wg.Add(1)
		go func(i int) {
			taskStart(i)
			defer wg.Done()
			defer func() {
				if r := recover(); r != nil {
					panics[i] = r
				}
				taskDone(i)
			}()
			fns[i]()
		}(i)
	}
	kick()
	code := waitMain()
	res := &Result{}
	switch code {
	case 1:
		res.Outcome = "finished"
		wg.Wait()
		spawnWG.Wait()
	case 2:
		res.Outcome = "deadlock"
	case 4:
		res.Outcome = "stalled"
	default:
		res.Outcome = "stepcap"
	}
	collect(res)
	for _, p := range panics {
		if p != nil {
			res.Panics = append(res.Panics, p)
		}
	}
	return res
}

var spawnWG sync.WaitGroup

// Go starts fn as a new task of the running simulation (the rewritten form of a `go` statement in code
// under simulation). Outside a run, or when the task table is full, it is a plain go statement.
func Go(fn func()) {
	slot := spawnSlot()
	if slot < 0 {
		go fn()
		return
	}
	spawnWG.Add(1)
	go func() {
		taskStart(slot)
		defer spawnWG.Done()
		defer func() {
			if r := recover(); r != nil {
				Record("panic-in-goroutine", fmt.Sprint(r), "", 0)
			}
			taskDone(slot)
		}()
		fn()
	}()
	Yield("go")
}

// Channel operations of code under simulation. A task must never block in the Go runtime (it is the
// only one running), so every operation is tried without blocking and the task polls (Poll) until it
// succeeds. That is exact for closed channels, buffered channels, ctx.Done(), timers and for partners
// that really block (goroutines of the standard library). Two polling tasks, however, would never
// meet on an unbuffered (or full / empty) channel: for Send and Recv statements the scheduler
// therefore keeps a registry of waiting senders and receivers per channel and hands the value over
// directly; an atomic flag per hand-over gives the race detector the edge a real channel would give.
// (A select in simulated code is polled with its real cases; a case that could only be served by such
// a hand-over is not matched - a run that ends with tasks still polling is reported as "not simulated",
// never as a deadlock of the program.)

type handoff struct {
	ready atomic.Uint32 // stored by the registering side after initialisation, loaded by the partner before it touches the record
	flag  atomic.Uint32 // 1: value delivered (receiver side) / taken (sender side)
	val   any
	ok    bool
}

type waiter struct {
	ch   uintptr
	send bool
	h    *handoff
	used bool
}

var waiters [MaxTasks]waiter

//go:norace
func findWaiter(ch uintptr, send bool) int {
	for i := 0; i < ntasks; i++ {
		if waiters[i].used && waiters[i].ch == ch && waiters[i].send == send {
			return i
		}
	}
	return -1
}

//go:norace
func setWaiter(self int, ch uintptr, send bool, h *handoff) {
	waiters[self] = waiter{ch: ch, send: send, h: h, used: true}
}

//go:norace
func clearWaiter(i int) { waiters[i] = waiter{} }

//go:norace
func waiterHandoff(i int) *handoff { return waiters[i].h }

func chanKey[T any](ch <-chan T) uintptr { return reflect.ValueOf(ch).Pointer() }

// Recv is `<-ch` for code under simulation.
func Recv[T any](ch <-chan T) T {
	v, _ := Recv2(ch)
	return v
}

// Recv2 is `v, ok := <-ch`.
func Recv2[T any](ch <-chan T) (T, bool) {
	if !InTask() {
		v, ok := <-ch
		return v, ok
	}
	self := Self()
	key := chanKey(ch)
	var mine *handoff
	for {
		if mine != nil && mine.flag.Load() == 1 {
			// a waiting sender handed its value over
			clearWaiter(self)
			v, _ := mine.val.(T)
			Yield("recv")
			return v, mine.ok
		}
		select {
		case v, ok := <-ch:
			if mine != nil {
				clearWaiter(self)
			}
			Yield("recv")
			return v, ok
		default:
		}
		if i := findWaiter(key, true); i >= 0 {
			// a sender of this simulation waits on the channel: take its value
			h := waiterHandoff(i)
			clearWaiter(i)
			if mine != nil {
				clearWaiter(self)
			}
			h.ready.Load()
			v, _ := h.val.(T)
			h.flag.Store(1)
			Yield("recv")
			return v, true
		}
		if mine == nil {
			mine = &handoff{}
			mine.ready.Store(1)
			setWaiter(self, key, false, mine)
		}
		Poll("recv")
	}
}

// Send is `ch <- v`.
func Send[T any](ch chan<- T, v T) {
	if !InTask() {
		ch <- v
		return
	}
	self := Self()
	key := reflect.ValueOf(ch).Pointer()
	var mine *handoff
	for {
		if mine != nil && mine.flag.Load() == 1 {
			clearWaiter(self) // a receiver took the value
			Yield("send")
			return
		}
		select {
		case ch <- v:
			if mine != nil {
				clearWaiter(self)
			}
			Yield("send")
			return
		default:
		}
		if i := findWaiter(key, false); i >= 0 {
			h := waiterHandoff(i)
			clearWaiter(i)
			if mine != nil {
				clearWaiter(self)
			}
			h.ready.Load()
			h.val, h.ok = v, true
			h.flag.Store(1)
			Yield("send")
			return
		}
		if mine == nil {
			mine = &handoff{val: v}
			mine.ready.Store(1)
			setWaiter(self, key, true, mine)
		}
		Poll("send")
	}
}

// Polling reports how many tasks were still waiting for a channel operation when the run ended.
//
//go:norace
func Polling() int {
	n := 0
	for i := 0; i < ntasks; i++ {
		if tasks[i].status == stPolling {
			n++
		}
	}
	return n
}

//go:norace
func setup(cfg Config, n int) {
	ntasks, ninitial, spawned, pollSpins = n, n, 0, 0
	waiters = [MaxTasks]waiter{}
	tasks = new([MaxTasks]task)
	rng = cfg.Seed
	seed0 = cfg.Seed
	for i := range owner {
		owner[i] = int32(i)
	}
	policy = cfg.Policy % NPolicies
	stepCap = cfg.StepCap
	if stepCap <= 0 {
		stepCap = 20000
	}
	steps, outcome, ntrace, nreplay, contended, blocks, nevents = 0, 0, 0, 0, 0, 0, 0
	replay = cfg.Replay
	for i := 0; i < n; i++ {
		tasks[i].status = stRunnable
		tasks[i].prio = int32(next64() % 1000)
	}
	starved = int(next64() % uint64(n))
	quantum = 1 + int(next64()%6)
	qleft = quantum
	for k := range pctChange {
		pctChange[k] = int(next64() % 400)
	}
	mainWake = 0
	running = -1
	active = true
}

//go:norace
func kick() {
	to := choose(-1)
	running = to
	unpark(&tasks[to].wake)
}

// StallBudget bounds the wall-clock time of one run: a task that blocks in the Go runtime (an operation
// the simulation does not know: it is the only task running) would otherwise stall the run for ever.
var StallBudget = 45 * time.Second

//go:norace
func waitMain() int {
	deadline := time.Now().Add(StallBudget)
	for mainWake == 0 {
		ts := syscall.Timespec{Sec: 0, Nsec: 200e6}
		syscall.Syscall6(syscall.SYS_FUTEX, uintptr(unsafe.Pointer(&mainWake)), 0 /*FUTEX_WAIT*/, 0, uintptr(unsafe.Pointer(&ts)), 0, 0)
		if mainWake == 0 && time.Now().After(deadline) {
			outcome = 4 // stalled
			running = -1
			active = false
			return outcome
		}
	}
	mainWake = 0
	active = false
	return outcome
}

//go:norace
func collect(r *Result) {
	r.Steps, r.Contended, r.Blocks = steps, contended, blocks
	r.Polling, r.Spawned = Polling(), spawned
	r.Trace = make([]uint8, ntrace)
	copy(r.Trace, trace[:ntrace])
	r.Events = make([]Event, nevents)
	copy(r.Events, events[:nevents])
	for i := 0; i < ntasks; i++ {
		if tasks[i].status == stBlocked {
			r.Blocked = append(r.Blocked, i)
		}
	}
}

// ResetLog clears the event log and sequence counter between runs (outside a run only).
//
//go:norace
func ResetLog() { nevents = 0 }

// DrainEvents returns and clears events recorded outside a scheduled run (sequential histories).
//
//go:norace
func DrainEvents() []Event {
	ev := make([]Event, nevents)
	copy(ev, events[:nevents])
	nevents = 0
	return ev
}
