package sched

import (
	"sync"
)

type Config struct {
	Seed    uint64
	Policy  int
	StepCap int
	Replay  []uint8 // decisions at contended points; nil = draw from the PRNG
}

type Result struct {
	Outcome   string // finished | deadlock | stepcap
	Steps     int
	Contended int
	Blocks    int
	Trace     []uint8 // task chosen at every contended decision
	Blocked   []int   // tasks still blocked at the end (deadlock)
	Events    []Event
	Panics    []any
}

// Run executes the task functions under the seeded scheduler and returns when all finished,
// or on deadlock / step cap. The final hand-back to the caller goes through a real WaitGroup
// (only for tasks that ran to completion), which gives the caller - and only the caller - a
// happens-before edge from every task's end.
func Run(cfg Config, fns []func()) *Result {
	if len(fns) > MaxTasks {
		panic("too many tasks")
	}
	setup(cfg, len(fns))
	var wg sync.WaitGroup
	panics := make([]any, len(fns))
	for i := range fns {
		wg.Add(1)
		go func(i int) {
			taskStart(i)
			defer wg.Done()
			defer func() {
				if r := recover(); r != nil {
					panics[i] = r
				}
				taskDone(i)
			}()
			fns[i]()
		}(i)
	}
	kick()
	code := waitMain()
	res := &Result{}
	switch code {
	case 1:
		res.Outcome = "finished"
		wg.Wait()
	case 2:
		res.Outcome = "deadlock"
	default:
		res.Outcome = "stepcap"
	}
	collect(res)
	for _, p := range panics {
		if p != nil {
			res.Panics = append(res.Panics, p)
		}
	}
	return res
}

//go:norace
func setup(cfg Config, n int) {
	ntasks = n
	tasks = new([MaxTasks]task)
	rng = cfg.Seed
	policy = cfg.Policy % NPolicies
	stepCap = cfg.StepCap
	if stepCap <= 0 {
		stepCap = 20000
	}
	steps, outcome, ntrace, nreplay, contended, blocks, nevents = 0, 0, 0, 0, 0, 0, 0
	replay = cfg.Replay
	for i := 0; i < n; i++ {
		tasks[i].status = stRunnable
		tasks[i].prio = int32(next64() % 1000)
	}
	starved = int(next64() % uint64(n))
	quantum = 1 + int(next64()%6)
	qleft = quantum
	for k := range pctChange {
		pctChange[k] = int(next64() % 400)
	}
	mainWake = 0
	running = -1
	active = true
}

//go:norace
func kick() {
	to := choose(-1)
	running = to
	unpark(&tasks[to].wake)
}

//go:norace
func waitMain() int {
	park(&mainWake)
	active = false
	return outcome
}

//go:norace
func collect(r *Result) {
	r.Steps, r.Contended, r.Blocks = steps, contended, blocks
	r.Trace = make([]uint8, ntrace)
	copy(r.Trace, trace[:ntrace])
	r.Events = make([]Event, nevents)
	copy(r.Events, events[:nevents])
	for i := 0; i < ntasks; i++ {
		if tasks[i].status == stBlocked {
			r.Blocked = append(r.Blocked, i)
		}
	}
}

// ResetLog clears the event log and sequence counter between runs (outside a run only).
//
//go:norace
func ResetLog() { nevents = 0 }

// DrainEvents returns and clears events recorded outside a scheduled run (sequential histories).
//
//go:norace
func DrainEvents() []Event {
	ev := make([]Event, nevents)
	copy(ev, events[:nevents])
	nevents = 0
	return ev
}
