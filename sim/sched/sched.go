// Package sched is the seeded goroutine scheduler of engine 2.
//
// Tasks are real goroutines of which exactly one runs; every other is parked on a futex word.
// The running task reaches a yield point (a simsync operation, a fixture callback, a
// statement yield inserted into generated code) and the scheduler - executed by the yielding
// task itself - draws who runs next among the runnable tasks from the run's PRNG.
//
// Hand-off is invisible to the race detector: all scheduler state lives in fixed arrays and
// is touched only inside //go:norace functions, and goroutines are parked/woken with the raw
// futex system call, which creates no happens-before edge. A race report under this scheduler
// is therefore caused only by the program's own synchronisation (or lack of it), is a
// function of the seed, and replays.
package sched

import (
	"syscall"
	"unsafe"
)

const (
	MaxTasks  = 16
	MaxSteps  = 1 << 20
	MaxEvents = 1 << 16

	stIdle = iota
	stRunnable
	stBlocked
	stDone
)

// Policy selects how the next task is chosen.
const (
	PolRandom = iota // uniform among runnable
	PolPCT           // priorities with a few change points
	PolStarve        // one task only runs when nothing else can
	PolRR            // round robin with a random quantum
	PolSticky        // keep running the current task with high probability
	NPolicies
)

type task struct {
	wake    uint32
	status  int32
	blocked uintptr
	prio    int32
	_       [40]byte
}

type Event struct {
	Seq  int64
	Task int32
	Kind string
	A    string
	B    string
	N    int64
}

var (
	active    bool
	ntasks    int
	tasks     *[MaxTasks]task // fresh per run: goroutines leaked by a deadlocked run stay parked on the old one
	running   int             = -1
	mainWake  uint32
	rng       uint64
	policy    int
	stepCap   int
	steps     int
	outcome   int // 0 running, 1 finished, 2 deadlock, 3 step cap
	starved   int
	quantum   int
	qleft     int
	pctChange [4]int
	// trace: the task chosen at every decision with >1 runnable candidates
	trace     [MaxSteps]uint8
	ntrace    int
	replay    []uint8 // when non-nil, decisions are taken from here (index = decision number)
	nreplay   int
	contended int // decisions with >1 runnable
	blocks    int // times a task blocked on a primitive
	events    [MaxEvents]Event
	nevents   int
	seq       int64
	serial    int64
	yieldHit  [256]int32
)

//go:norace
func futexWait(addr *uint32, val uint32) {
	syscall.Syscall6(syscall.SYS_FUTEX, uintptr(unsafe.Pointer(addr)), 0 /*FUTEX_WAIT*/, uintptr(val), 0, 0, 0)
}

//go:norace
func futexWake(addr *uint32) {
	syscall.Syscall6(syscall.SYS_FUTEX, uintptr(unsafe.Pointer(addr)), 1 /*FUTEX_WAKE*/, 1, 0, 0, 0)
}

//go:norace
func park(w *uint32) {
	for *w == 0 {
		futexWait(w, 0)
	}
	*w = 0
}

//go:norace
func unpark(w *uint32) {
	*w = 1
	futexWake(w)
}

//go:norace
func next64() uint64 {
	rng += 0x9e3779b97f4a7c15
	z := rng
	z = (z ^ (z >> 30)) * 0xbf58476d1ce4e5b9
	z = (z ^ (z >> 27)) * 0x94d049bb133111eb
	return z ^ (z >> 31)
}

// choose picks the next task among the runnable ones; -1 if none.
//
//go:norace
func choose(cur int) int {
	var cand [MaxTasks]int
	n := 0
	for i := 0; i < ntasks; i++ {
		if tasks[i].status == stRunnable {
			cand[n] = i
			n++
		}
	}
	if n == 0 {
		return -1
	}
	if n == 1 {
		return cand[0]
	}
	contended++
	pick := -1
	if replay != nil {
		if nreplay < len(replay) {
			want := int(replay[nreplay])
			nreplay++
			for k := 0; k < n; k++ {
				if cand[k] == want {
					pick = want
				}
			}
		}
		if pick < 0 {
			pick = cand[0] // shrunk or diverged replay: deterministic fallback
			for k := 0; k < n; k++ {
				if cand[k] == cur {
					pick = cur
				}
			}
		}
	} else {
		switch policy {
		case PolRandom:
			pick = cand[int(next64()%uint64(n))]
		case PolPCT:
			for k := 0; k < len(pctChange); k++ {
				if pctChange[k] == steps && cur >= 0 {
					tasks[cur].prio = -int32(k) - 1
				}
			}
			best := cand[0]
			for k := 1; k < n; k++ {
				if tasks[cand[k]].prio > tasks[best].prio {
					best = cand[k]
				}
			}
			pick = best
		case PolStarve:
			var c2 [MaxTasks]int
			m := 0
			for k := 0; k < n; k++ {
				if cand[k] != starved {
					c2[m] = cand[k]
					m++
				}
			}
			if m == 0 {
				pick = starved
			} else {
				pick = c2[int(next64()%uint64(m))]
			}
		case PolRR:
			curOK := false
			for k := 0; k < n; k++ {
				if cand[k] == cur {
					curOK = true
				}
			}
			if curOK && qleft > 0 {
				qleft--
				pick = cur
			} else {
				qleft = quantum
				pick = cand[0]
				for k := 0; k < n; k++ {
					if cand[k] > cur {
						pick = cand[k]
						break
					}
				}
			}
		default: // PolSticky
			curOK := false
			for k := 0; k < n; k++ {
				if cand[k] == cur {
					curOK = true
				}
			}
			if curOK && next64()%8 != 0 {
				pick = cur
			} else {
				pick = cand[int(next64()%uint64(n))]
			}
		}
	}
	if ntrace < MaxSteps {
		trace[ntrace] = uint8(pick)
		ntrace++
	}
	return pick
}

// switchTo hands the processor to task `to` and parks the calling task (unless it is `to`).
//
//go:norace
func switchTo(self, to int) {
	if to == self {
		return
	}
	t := tasks // the array of THIS run: once main is released it may install a new one
	running = to
	unpark(&t[to].wake)
	if self >= 0 {
		park(&t[self].wake)
	}
}

//go:norace
func finish(code int) {
	if outcome == 0 {
		outcome = code
	}
	running = -1
	unpark(&mainWake)
}

// reschedule is the core of every yield point.
//
//go:norace
func reschedule(self int) {
	t := tasks
	steps++
	seq++
	if steps > stepCap {
		finish(3)
		park(&t[self].wake) // never woken: the run is over
		return
	}
	to := choose(self)
	if to < 0 {
		finish(2) // nothing runnable while this task cannot continue: deadlock
		park(&t[self].wake)
		return
	}
	switchTo(self, to)
}

// Yield is a scheduling point. Outside a simulated run (or from a goroutine that is not the
// running task) it does nothing.
//
//go:norace
func Yield(site string) {
	if !active || running < 0 {
		return
	}
	h := uint8(0)
	for i := 0; i < len(site); i++ {
		h = h*31 + site[i]
	}
	yieldHit[h]++
	reschedule(running)
}

// Block parks the running task until Wake(key) makes it runnable again.
//
//go:norace
func Block(key uintptr) {
	if !active || running < 0 {
		return
	}
	self := running
	tasks[self].status = stBlocked
	tasks[self].blocked = key
	blocks++
	reschedule(self)
}

// Wake makes every task blocked on key runnable (they retry their operation).
//
//go:norace
func Wake(key uintptr) {
	if !active {
		return
	}
	for i := 0; i < ntasks; i++ {
		if tasks[i].status == stBlocked && tasks[i].blocked == key {
			tasks[i].status = stRunnable
			tasks[i].blocked = 0
		}
	}
}

// InTask reports whether the caller runs as a scheduled task.
//
//go:norace
func InTask() bool { return active && running >= 0 }

// Self returns the running task's index (-1 outside a run).
//
//go:norace
func Self() int {
	if !active {
		return -1
	}
	return running
}

// Now returns the global event sequence number.
//
//go:norace
func Now() int64 { seq++; return seq }

// NextSerial hands out process-unique object serials.
//
//go:norace
func NextSerial() int64 { serial++; return serial }

// Record appends to the global event log (fixture callbacks, probe operations).
//
//go:norace
func Record(kind, a, b string, n int64) {
	if nevents >= MaxEvents {
		return
	}
	seq++
	t := int32(-1)
	if active {
		t = int32(running)
	}
	events[nevents] = Event{Seq: seq, Task: t, Kind: kind, A: a, B: b, N: n}
	nevents++
}

//go:norace
func taskDone(self int) {
	t := tasks
	t[self].status = stDone
	steps++
	to := choose(self)
	if to >= 0 {
		running = to
		unpark(&t[to].wake)
		return
	}
	for i := 0; i < ntasks; i++ {
		if tasks[i].status == stBlocked {
			finish(2)
			return
		}
	}
	finish(1)
}

//go:norace
func taskStart(self int) {
	park(&tasks[self].wake)
}

// EventCount returns the number of events recorded so far in this run.
//
//go:norace
func EventCount() int { return nevents }
