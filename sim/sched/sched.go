// Package sched is the seeded goroutine scheduler of engine 2.
//
// Tasks are real goroutines of which exactly one runs; every other is parked on a futex word.
// The running task reaches a yield point (a simsync operation, a fixture callback, a
// statement yield inserted into generated code) and the scheduler - executed by the yielding
// task itself - draws who runs next among the runnable tasks from the run's PRNG.
//
// Hand-off is invisible to the race detector: all scheduler state lives in fixed arrays and
// is touched only inside //go:norace functions, and goroutines are parked/woken with the raw
// futex system call, which creates no happens-before edge. A race report under this scheduler
// is therefore caused only by the program's own synchronisation (or lack of it), is a
// function of the seed, and replays.
package sched

import (
	"syscall"
	"unsafe"
)

const (
	MaxTasks  = 64
	MaxSteps  = 1 << 20
	MaxEvents = 1 << 16

	stIdle = iota
	stRunnable
	stBlocked
	stDone
	stPolling // waits for a channel operation / select case to become possible: runnable, but of low priority
)

// Policy selects how the next task is chosen.
const (
	PolRandom = iota // uniform among runnable
	PolPCT           // priorities with a few change points
	PolStarve        // one task only runs when nothing else can
	PolRR            // round robin with a random quantum
	PolSticky        // keep running the current task with high probability
	NPolicies
)

type task struct {
	wake    uint32
	status  int32
	blocked uintptr
	prio    int32
	_       [40]byte
}

type Event struct {
	Seq  int64
	Task int32
	Kind string
	A    string
	B    string
	N    int64
}

var (
	active    bool
	ntasks    int
	tasks     *[MaxTasks]task // fresh per run: goroutines leaked by a deadlocked run stay parked on the old one
	running   int             = -1
	mainWake  uint32
	rng       uint64
	policy    int
	stepCap   int
	steps     int
	outcome   int // 0 running, 1 finished, 2 deadlock, 3 step cap
	starved   int
	quantum   int
	qleft     int
	pctChange [4]int
	// trace: the task chosen at every decision with >1 runnable candidates
	trace     [MaxSteps]uint8
	ntrace    int
	replay    []uint8 // when non-nil, decisions are taken from here (index = decision number)
	nreplay   int
	contended int // decisions with >1 runnable
	blocks    int // times a task blocked on a primitive
	events    [MaxEvents]Event
	nevents   int
	seq       int64
	serial    int64
	yieldHit  [256]int32
	// goroutines started by the program under simulation (Go): slots >= ninitial; owner is the initial
	// task on whose behalf a spawned task runs (events are attributed to it)
	ninitial  int
	owner     [MaxTasks]int32
	spawned   int
	pollSpins int // consecutive decisions at which only polling tasks could run
	seed0     uint64
)

//go:norace
func futexWait(addr *uint32, val uint32) {
	syscall.Syscall6(syscall.SYS_FUTEX, uintptr(unsafe.Pointer(addr)), 0 /*FUTEX_WAIT*/, uintptr(val), 0, 0, 0)
}

//go:norace
func futexWake(addr *uint32) {
	syscall.Syscall6(syscall.SYS_FUTEX, uintptr(unsafe.Pointer(addr)), 1 /*FUTEX_WAKE*/, 1, 0, 0, 0)
}

//go:norace
func park(w *uint32) {
	for *w == 0 {
		futexWait(w, 0)
	}
	*w = 0
}

//go:norace
func unpark(w *uint32) {
	*w = 1
	futexWake(w)
}

//go:norace
func mix(a, b uint64) uint64 {
	z := a ^ (b+1)*0x9e3779b97f4a7c15
	z = (z ^ (z >> 30)) * 0xbf58476d1ce4e5b9
	z = (z ^ (z >> 27)) * 0x94d049bb133111eb
	return z ^ (z >> 31)
}

//go:norace
func next64() uint64 {
	rng += 0x9e3779b97f4a7c15
	z := rng
	z = (z ^ (z >> 30)) * 0xbf58476d1ce4e5b9
	z = (z ^ (z >> 27)) * 0x94d049bb133111eb
	return z ^ (z >> 31)
}

// choose picks the next task among the runnable ones; -1 if none.
//
//go:norace
func choose(cur int) int {
	var cand [MaxTasks]int
	n := 0
	for i := 0; i < ntasks; i++ {
		if tasks[i].status == stRunnable {
			cand[n] = i
			n++
		}
	}
	// tasks that wait on a channel (polling) run when nothing else can, and now and then in between -
	// decided by a hash of (seed, step), not by the PRNG stream, so that a replayed trace sees the same
	// candidate sets
	coin := mix(seed0, uint64(steps))%6 == 0
	onlyPollers := false
	if n == 0 || coin {
		only := n == 0
		onlyPollers = only
		for i := 0; i < ntasks; i++ {
			if tasks[i].status == stPolling {
				cand[n] = i
				n++
			}
		}
		if only && n > 0 {
			pollSpins++
			if pollSpins > 20000 {
				return -1 // every remaining task waits for a channel that nobody serves
			}
		}
	}
	if n == 0 {
		return -1
	}
	if n == 1 {
		return cand[0]
	}
	contended++
	pick := -1
	if replay != nil {
		if nreplay < len(replay) {
			want := int(replay[nreplay])
			nreplay++
			for k := 0; k < n; k++ {
				if cand[k] == want {
					pick = want
				}
			}
		}
		if pick < 0 {
			pick = cand[0] // shrunk or diverged replay: deterministic fallback
			for k := 0; k < n; k++ {
				if cand[k] == cur {
					pick = cur
				}
			}
		}
	} else if onlyPollers {
		// every task that can run waits for another one: whatever the policy, they take turns fairly
		pick = cand[int(next64()%uint64(n))]
	} else {
		switch policy {
		case PolRandom:
			pick = cand[int(next64()%uint64(n))]
		case PolPCT:
			for k := 0; k < len(pctChange); k++ {
				if pctChange[k] == steps && cur >= 0 {
					tasks[cur].prio = -int32(k) - 1
				}
			}
			best := cand[0]
			for k := 1; k < n; k++ {
				if tasks[cand[k]].prio > tasks[best].prio {
					best = cand[k]
				}
			}
			pick = best
		case PolStarve:
			var c2 [MaxTasks]int
			m := 0
			for k := 0; k < n; k++ {
				if cand[k] != starved {
					c2[m] = cand[k]
					m++
				}
			}
			if m == 0 {
				pick = starved
			} else {
				pick = c2[int(next64()%uint64(m))]
			}
		case PolRR:
			curOK := false
			for k := 0; k < n; k++ {
				if cand[k] == cur {
					curOK = true
				}
			}
			if curOK && qleft > 0 {
				qleft--
				pick = cur
			} else {
				qleft = quantum
				pick = cand[0]
				for k := 0; k < n; k++ {
					if cand[k] > cur {
						pick = cand[k]
						break
					}
				}
			}
		default: // PolSticky
			curOK := false
			for k := 0; k < n; k++ {
				if cand[k] == cur {
					curOK = true
				}
			}
			if curOK && next64()%8 != 0 {
				pick = cur
			} else {
				pick = cand[int(next64()%uint64(n))]
			}
		}
	}
	if ntrace < MaxSteps {
		trace[ntrace] = uint8(pick)
		ntrace++
	}
	return pick
}

// switchTo hands the processor to task `to` and parks the calling task (unless it is `to`).
//
//go:norace
func switchTo(self, to int) {
	if to == self {
		return
	}
	t := tasks // the array of THIS run: once main is released it may install a new one
	running = to
	unpark(&t[to].wake)
	if self >= 0 {
		park(&t[self].wake)
	}
}

// Poll is the yield point of a task that found no channel operation possible: it stays runnable, but
// other tasks are preferred (see choose). It returns when the task is scheduled again; the caller
// retries its operation.
//
//go:norace
func Poll(site string) {
	if !active || running < 0 {
		return
	}
	self := running
	tasks[self].status = stPolling
	reschedule(self)
	if tasks[self].status == stPolling {
		tasks[self].status = stRunnable
	}
}

//go:norace
func finish(code int) {
	if outcome == 0 {
		outcome = code
	}
	running = -1
	unpark(&mainWake)
}

// reschedule is the core of every yield point.
//
//go:norace
func reschedule(self int) {
	t := tasks
	steps++
	seq++
	if t[self].status != stPolling {
		pollSpins = 0
	}
	if steps > stepCap {
		finish(3)
		park(&t[self].wake) // never woken: the run is over
		return
	}
	to := choose(self)
	if to < 0 {
		finish(2) // nothing runnable while this task cannot continue: deadlock
		park(&t[self].wake)
		return
	}
	switchTo(self, to)
}

// Yield is a scheduling point. Outside a simulated run (or from a goroutine that is not the
// running task) it does nothing.
//
//go:norace
func Yield(site string) {
	if !active || running < 0 {
		return
	}
	h := uint8(0)
	for i := 0; i < len(site); i++ {
		h = h*31 + site[i]
	}
	yieldHit[h]++
	reschedule(running)
}

// Block parks the running task until Wake(key) makes it runnable again.
//
//go:norace
func Block(key uintptr) {
	if !active || running < 0 {
		return
	}
	self := running
	tasks[self].status = stBlocked
	tasks[self].blocked = key
	blocks++
	reschedule(self)
}

// Wake makes every task blocked on key runnable (they retry their operation).
//
//go:norace
func Wake(key uintptr) {
	if !active {
		return
	}
	for i := 0; i < ntasks; i++ {
		if tasks[i].status == stBlocked && tasks[i].blocked == key {
			tasks[i].status = stRunnable
			tasks[i].blocked = 0
		}
	}
}

// InTask reports whether the caller runs as a scheduled task.
//
//go:norace
func InTask() bool { return active && running >= 0 }

// Self returns the running task's index (-1 outside a run).
//
//go:norace
func Self() int {
	if !active {
		return -1
	}
	return running
}

// Now returns the global event sequence number.
//
//go:norace
func Now() int64 { seq++; return seq }

// NextSerial hands out process-unique object serials.
//
//go:norace
func NextSerial() int64 { serial++; return serial }

// Record appends to the global event log (fixture callbacks, probe operations).
//
//go:norace
func Record(kind, a, b string, n int64) {
	if nevents >= MaxEvents {
		return
	}
	seq++
	t := int32(-1)
	if active {
		t = int32(running)
		if running >= 0 {
			t = owner[running]
		}
	}
	events[nevents] = Event{Seq: seq, Task: t, Kind: kind, A: a, B: b, N: n}
	nevents++
}

//go:norace
func taskDone(self int) {
	t := tasks
	t[self].status = stDone
	steps++
	to := choose(self)
	if to >= 0 {
		running = to
		unpark(&t[to].wake)
		return
	}
	for i := 0; i < ntasks; i++ {
		if tasks[i].status == stBlocked || tasks[i].status == stPolling {
			finish(2)
			return
		}
	}
	finish(1)
}

// Owner returns the initial task on whose behalf the running task runs (itself for an initial task).
//
//go:norace
func Owner() int {
	if !active || running < 0 {
		return -1
	}
	return int(owner[running])
}

//go:norace
func spawnSlot() int {
	if !active || running < 0 {
		return -1
	}
	slot := -1
	for i := ninitial; i < ntasks; i++ {
		if tasks[i].status == stDone {
			slot = i
			break
		}
	}
	if slot < 0 {
		if ntasks >= MaxTasks {
			return -1
		}
		slot = ntasks
		ntasks++
	}
	tasks[slot].wake = 0
	tasks[slot].status = stRunnable
	tasks[slot].blocked = 0
	tasks[slot].prio = int32(mix(seed0, uint64(steps)+7) % 1000)
	owner[slot] = owner[running]
	spawned++
	return slot
}

// Spawned returns the number of goroutines the program started through Go in this run.
//
//go:norace
func Spawned() int { return spawned }

//go:norace
func taskStart(self int) {
	park(&tasks[self].wake)
}

// EventCount returns the number of events recorded so far in this run.
//
//go:norace
func EventCount() int { return nevents }
