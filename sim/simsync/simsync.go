// Package simsync replaces sync.{Mutex,RWMutex,Once} in code run under the seeded scheduler.
//
// Each type wraps the real primitive and only ever calls its non-blocking Try* form, so the
// race detector sees exactly the happens-before edges the real primitive gives, while
// blocking is simulated: a task that cannot acquire yields to the scheduler and is parked
// until a release wakes it. Outside a simulated run the real blocking operations are used.
package simsync

import (
	"sync"
	"sync/atomic"
	"unsafe"

	"verifsim/sched"
)

type Mutex struct {
	mu sync.Mutex
}

func (m *Mutex) key() uintptr { return uintptr(unsafe.Pointer(m)) }

func (m *Mutex) Lock() {
	if !sched.InTask() {
		m.mu.Lock()
		return
	}
	for {
		sched.Yield("mutex.lock")
		if m.mu.TryLock() {
			return
		}
		sched.Block(m.key())
	}
}

func (m *Mutex) TryLock() bool { return m.mu.TryLock() }

func (m *Mutex) Unlock() {
	m.mu.Unlock()
	sched.Wake(m.key())
	sched.Yield("mutex.unlock")
}

type RWMutex struct {
	rw sync.RWMutex
	ww int32 // writers waiting (touched only in norace accessors)
}

func (m *RWMutex) key() uintptr { return uintptr(unsafe.Pointer(m)) }

//go:norace
func (m *RWMutex) writersWaiting() int32 { return m.ww }

//go:norace
func (m *RWMutex) addWriter(d int32) { m.ww += d }

func (m *RWMutex) RLock() {
	if !sched.InTask() {
		m.rw.RLock()
		return
	}
	for {
		sched.Yield("rwmutex.rlock")
		// writer preference, as documented for sync.RWMutex: a pending Lock blocks new readers
		if m.writersWaiting() == 0 && m.rw.TryRLock() {
			return
		}
		sched.Block(m.key())
	}
}

func (m *RWMutex) RUnlock() {
	m.rw.RUnlock()
	sched.Wake(m.key())
	sched.Yield("rwmutex.runlock")
}

func (m *RWMutex) Lock() {
	if !sched.InTask() {
		m.rw.Lock()
		return
	}
	m.addWriter(1)
	for {
		sched.Yield("rwmutex.lock")
		if m.rw.TryLock() {
			m.addWriter(-1)
			return
		}
		sched.Block(m.key())
	}
}

func (m *RWMutex) Unlock() {
	m.rw.Unlock()
	sched.Wake(m.key())
	sched.Yield("rwmutex.unlock")
}

func (m *RWMutex) TryLock() bool  { return m.rw.TryLock() }
func (m *RWMutex) TryRLock() bool { return m.rw.TryRLock() }
func (m *RWMutex) RLocker() sync.Locker {
	return (*rlocker)(m)
}

type rlocker RWMutex

func (r *rlocker) Lock()   { (*RWMutex)(r).RLock() }
func (r *rlocker) Unlock() { (*RWMutex)(r).RUnlock() }

// Once is sync.Once's algorithm on top of the simulated Mutex.
type Once struct {
	done atomic.Uint32
	m    Mutex
}

func (o *Once) Do(f func()) {
	if o.done.Load() == 0 {
		o.doSlow(f)
	}
}

func (o *Once) doSlow(f func()) {
	o.m.Lock()
	defer o.m.Unlock()
	if o.done.Load() == 0 {
		defer o.done.Store(1)
		f()
	}
}

// WaitGroup wraps the real one (whose Done->Wait edge the race detector knows) and mirrors its counter,
// so that Wait can poll instead of blocking the only running task.
type WaitGroup struct {
	wg sync.WaitGroup
	n  atomic.Int64
}

func (w *WaitGroup) Add(delta int) {
	w.n.Add(int64(delta))
	w.wg.Add(delta)
}

func (w *WaitGroup) Done() { w.Add(-1) }

func (w *WaitGroup) Wait() {
	for sched.InTask() && w.n.Load() > 0 {
		sched.Poll("waitgroup.wait")
	}
	w.wg.Wait()
}
