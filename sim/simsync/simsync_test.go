package simsync

import (
	"fmt"
	"os"
	"testing"

	"verifsim/sched"
)

type counter struct {
	mu Mutex
	n  int
}

func runCounter(seed uint64, protected bool) (*sched.Result, int) {
	c := &counter{}
	fn := func() {
		for i := 0; i < 5; i++ {
			if protected {
				c.mu.Lock()
			}
			v := c.n
			sched.Yield("between")
			c.n = v + 1
			if protected {
				c.mu.Unlock()
			}
		}
	}
	r := sched.Run(sched.Config{Seed: seed, Policy: int(seed % 5)}, []func(){fn, fn, fn})
	return r, c.n
}

func TestProtected(t *testing.T) {
	for s := uint64(1); s < 40; s++ {
		r, n := runCounter(s, true)
		if r.Outcome != "finished" || n != 15 {
			t.Fatalf("seed %d: %s n=%d", s, r.Outcome, n)
		}
		r2, _ := runCounter(s, true)
		if fmt.Sprint(r.Trace) != fmt.Sprint(r2.Trace) {
			t.Fatalf("seed %d: trace not deterministic", s)
		}
	}
}

func TestUnprotectedLosesUpdates(t *testing.T) {
	if os.Getenv("RACY") == "" {
		t.Skip("set RACY=1 (expects race reports)")
	}
	lost := 0
	for s := uint64(1); s < 40; s++ {
		_, n := runCounter(s, false)
		if n != 15 {
			lost++
		}
	}
	if lost == 0 {
		t.Fatal("no lost update observed")
	}
	t.Logf("lost updates in %d/39 seeds", lost)
}

func TestDeadlock(t *testing.T) {
	dead := 0
	for s := uint64(1); s < 30; s++ {
		a, b := &Mutex{}, &Mutex{}
		f1 := func() { a.Lock(); sched.Yield("x"); b.Lock(); b.Unlock(); a.Unlock() }
		f2 := func() { b.Lock(); sched.Yield("x"); a.Lock(); a.Unlock(); b.Unlock() }
		r := sched.Run(sched.Config{Seed: s, Policy: 0}, []func(){f1, f2})
		if r.Outcome == "deadlock" {
			dead++
		}
	}
	if dead == 0 {
		t.Fatal("deadlock never found")
	}
	t.Logf("deadlock in %d/29 seeds", dead)
}

func TestRWWriterPreference(t *testing.T) {
	for s := uint64(1); s < 30; s++ {
		rw := &RWMutex{}
		order := []string{}
		f1 := func() { rw.RLock(); sched.Yield("hold"); sched.Yield("hold"); sched.Yield("hold"); rw.RUnlock() }
		f2 := func() { rw.Lock(); order = append(order, "w"); rw.Unlock() }
		f3 := func() { rw.RLock(); order = append(order, "r"); rw.RUnlock() }
		r := sched.Run(sched.Config{Seed: s}, []func(){f1, f2, f3})
		if r.Outcome != "finished" {
			t.Fatalf("seed %d: %s", s, r.Outcome)
		}
	}
}
