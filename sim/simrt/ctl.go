// Package simrt is the simulation runtime that rewritten code calls instead of the
// standard library's sources of nondeterminism and faults: map iteration, the file system,
// the clock, randomness, process exit and the standard streams.
//
// A run is bracketed by Begin/End on one Ctl. Outside a run every function behaves like the
// standard library (map iteration in sorted key order).
//
// The "simulated disk" is a private real directory (tmpfs) created from the run's world by
// the harness; this package adds the parts a real disk does not let a test decide: the order
// of directory listings, and faults (error returns, short/torn reads and writes, corrupted
// read content) placed at exact operation indices by the run's fault plan.
package simrt

import (
	"bytes"
	"context"
	"fmt"
	"os"
	"path/filepath"
	"reflect"
	"sort"
	"sync"
	"syscall"
	"time"

	"verifsim/choice"
)

// Fault is one planned fault: it fires on the operation with sequence number At (0-based,
// counted over all simulated FS operations of the run) if that operation's kind is OpKind.
type Fault struct {
	At     int    `json:"at"`
	OpKind string `json:"op"`   // open-r read close-r open-w write close-w rename create-temp remove stat mkdir chmod truncate sync
	Kind   string `json:"kind"` // errno name (ENOENT, EACCES, EISDIR, EIO, ENOSPC, EROFS, EMFILE, EXDEV) or corruption kind (trunc, flip, zero, dup)
	Arg    int    `json:"arg"`  // bytes transferred before the error (read/write) or corruption offset
}

// Op is one simulated file-system operation in the run's history.
type Op struct {
	Seq   int    `json:"seq"`
	Kind  string `json:"op"`
	Path  string `json:"path"`
	N     int    `json:"n,omitempty"` // bytes requested (write) / delivered (read)
	Err   string `json:"err,omitempty"`
	Fault string `json:"fault,omitempty"` // fault kind that fired here
}

type SiteStat struct {
	Calls    int `json:"calls"`
	Multi    int `json:"multi"`    // calls that saw >= 2 keys
	Permuted int `json:"permuted"` // calls whose order differed from sorted order
}

type Ctl struct {
	// map-iteration schedule
	MapSeed  uint64
	AltSeed  uint64          // seed used by sites listed in AltSites (divergence attribution)
	AltSites map[string]bool // nil: none
	AltAll   bool            // every site uses AltSeed
	// directory listing order
	ListSeed uint64
	// clock / randomness / identity
	Clock    time.Time
	RandSeed uint64
	Pid      int
	Host     string
	// SlowSeed (non-zero): file operations take simulated time, see op()
	SlowSeed uint64
	// Persist: a fault that applies to every operation of its kind, for the whole run
	Persist *Fault
	// Killed: the signal that killed the simulated process ("" = it was not killed)
	Killed string
	dead   bool
	// LockedPaths: files on which some other process holds an advisory lock for the whole run
	LockedPaths []string
	// StdoutFailFrom: from this write on (1-based; 0 = never) every write to the standard streams fails with ENOSPC
	StdoutFailFrom int
	stdWrites      int
	// fault plan
	Faults []Fault
	// Root is the private directory tree of the run; see guard.go
	Root       string
	Root2      string // a second private tree (absolute input root), may be empty
	devs       map[string]*vdev
	tmpCounter int

	// recorded
	Ops       []Op
	Sites     map[string]*SiteStat
	Stdout    bytes.Buffer
	Stderr    bytes.Buffer
	Fired     []Fault
	EnvReads  []string
	WorldUse  map[string]int // counters: clock, rand, pid, host, getwd, exec ...
	siteCalls map[string]int
	rnd       uint64
}

var cur *Ctl

// mu serialises every access to the run's records: the program under simulation may start
// goroutines of its own (which the simulator does not schedule) and they call into this package.
var mu sync.Mutex

func Begin(c *Ctl) {
	mu.Lock()
	sigRegs = nil
	fdNames = map[uintptr]string{}
	mu.Unlock()
	if c.Sites == nil {
		c.Sites = map[string]*SiteStat{}
	}
	c.siteCalls = map[string]int{}
	if c.WorldUse == nil {
		c.WorldUse = map[string]int{}
	}
	c.rnd = c.RandSeed
	cur = c
}

func End() { cur = nil }

// ---------------------------------------------------------------------------------------
// Gate: several simulated processes sharing one directory tree (bsim.execConcurrent). Each is a
// real process; before every file operation it asks the coordinator for its turn and then runs
// until its next file operation, so exactly one of them runs at a time and the coordinator's
// seeded choice of who goes next is the whole interleaving.

var gateReq, gateGrant *os.File

// GateInit is called by a child that was started with VERIFSIM_GATE=1 (descriptors 3 and 4).
func GateInit() {
	if os.Getenv("VERIFSIM_GATE") == "1" {
		gateReq, gateGrant = os.NewFile(3, "gate-req"), os.NewFile(4, "gate-grant")
	}
}

// GateWait blocks until the coordinator grants the next step.
func GateWait() {
	if gateReq == nil {
		return
	}
	if _, err := gateReq.Write([]byte{1}); err != nil {
		return
	}
	var b [1]byte
	_, _ = gateGrant.Read(b[:])
}

func Active() *Ctl { return cur }

func use(what string) {
	mu.Lock()
	if cur != nil {
		cur.WorldUse[what]++
	}
	mu.Unlock()
}

// ---------------------------------------------------------------------------------------
// map iteration

// Entry is one element of a simulated map iteration.
type Entry[K comparable, V any] struct {
	K K
	m map[K]V
}

// Get reads the value at iteration time (Go semantics: an entry removed during the loop
// is not produced; a changed value is seen).
func (e Entry[K, V]) Get() (V, bool) {
	v, ok := e.m[e.K]
	return v, ok
}

// MapOrder returns the keys of m in the order this run's map schedule dictates for site.
func MapOrder[M ~map[K]V, K comparable, V any](m M, site string) []Entry[K, V] {
	if len(m) == 0 {
		return nil
	}
	keys := make([]K, 0, len(m))
	for k := range m { // order irrelevant: sorted below
		keys = append(keys, k)
	}
	sortKeys(keys)
	mu.Lock()
	defer mu.Unlock()
	if cur != nil {
		st := cur.Sites[site]
		if st == nil {
			st = &SiteStat{}
			cur.Sites[site] = st
		}
		st.Calls++
		if len(keys) >= 2 {
			st.Multi++
			n := cur.siteCalls[site]
			cur.siteCalls[site] = n + 1
			seed := cur.MapSeed
			if cur.AltAll || (cur.AltSites != nil && cur.AltSites[site]) {
				seed = cur.AltSeed
			}
			if permute(keys, choice.Mix(choice.MixS(seed, site), uint64(n))) {
				st.Permuted++
			}
		}
	}
	out := make([]Entry[K, V], len(keys))
	for i, k := range keys {
		out[i] = Entry[K, V]{K: k, m: m}
	}
	return out
}

// permute applies the site's policy; reports whether the order changed.
func permute[K any](keys []K, seed uint64) bool {
	n := len(keys)
	src := choice.New(seed)
	src.NoLog = true
	changed := false
	swap := func(i, j int) {
		if i != j {
			keys[i], keys[j] = keys[j], keys[i]
			changed = true
		}
	}
	switch src.Draw("policy", 6) {
	case 0: // sorted
	case 1: // reverse
		for i, j := 0, n-1; i < j; i, j = i+1, j-1 {
			swap(i, j)
		}
	case 2: // rotate by k
		k := 1 + src.Draw("k", n-1)
		tmp := append(append([]K{}, keys[k:]...), keys[:k]...)
		copy(keys, tmp)
		changed = true
	case 3: // swap one pair
		i := src.Draw("i", n)
		j := src.Draw("j", n)
		swap(i, j)
	default: // uniform shuffle
		for i := 0; i < n-1; i++ {
			j := i + src.Draw("s", n-i)
			swap(i, j)
		}
	}
	return changed
}

func sortKeys[K any](keys []K) {
	if len(keys) < 2 {
		return
	}
	sort.SliceStable(keys, func(i, j int) bool {
		return lessValue(reflect.ValueOf(keys[i]), reflect.ValueOf(keys[j]))
	})
}

func lessValue(a, b reflect.Value) bool {
	if !a.IsValid() || !b.IsValid() {
		return !a.IsValid() && b.IsValid()
	}
	if a.Kind() != b.Kind() {
		return a.Kind() < b.Kind()
	}
	switch a.Kind() {
	case reflect.String:
		return a.String() < b.String()
	case reflect.Int, reflect.Int8, reflect.Int16, reflect.Int32, reflect.Int64:
		return a.Int() < b.Int()
	case reflect.Uint, reflect.Uint8, reflect.Uint16, reflect.Uint32, reflect.Uint64, reflect.Uintptr:
		return a.Uint() < b.Uint()
	case reflect.Float32, reflect.Float64:
		return a.Float() < b.Float()
	case reflect.Bool:
		return !a.Bool() && b.Bool()
	case reflect.Interface:
		return lessValue(a.Elem(), b.Elem())
	case reflect.Struct:
		for i := 0; i < a.NumField(); i++ {
			if lessValue(a.Field(i), b.Field(i)) {
				return true
			}
			if lessValue(b.Field(i), a.Field(i)) {
				return false
			}
		}
		return false
	case reflect.Array:
		for i := 0; i < a.Len(); i++ {
			if lessValue(a.Index(i), b.Index(i)) {
				return true
			}
			if lessValue(b.Index(i), a.Index(i)) {
				return false
			}
		}
		return false
	case reflect.Pointer, reflect.Chan, reflect.UnsafePointer:
		// no process-independent order exists; counted as uncontrolled
		use("uncontrolled-pointer-keyed-map")
		return a.Pointer() < b.Pointer()
	}
	return fmt.Sprint(a.Interface()) < fmt.Sprint(b.Interface())
}

// ---------------------------------------------------------------------------------------
// exit

type ExitPanic struct{ Code int }

// Exit replaces os.Exit: it unwinds to the harness.
func Exit(code int) {
	if cur == nil {
		panic(ExitPanic{code})
	}
	panic(ExitPanic{code})
}

// ---------------------------------------------------------------------------------------
// signals (os/signal is rewritten to these): a fault of kind SIGTERM/SIGINT at an operation delivers the
// signal to whatever the program registered; a process without a handler dies at that operation.

var sigByName = map[string]os.Signal{"SIGTERM": syscall.SIGTERM, "SIGINT": syscall.SIGINT}

type sigReg struct {
	ch     chan<- os.Signal
	cancel context.CancelFunc
	sigs   []os.Signal
}

var sigRegs []*sigReg

func sigMatches(r *sigReg, s os.Signal) bool {
	if len(r.sigs) == 0 {
		return true
	}
	for _, x := range r.sigs {
		if x == s {
			return true
		}
	}
	return false
}

// deliverSignal reports whether some handler took the signal (mu is held by the caller).
func deliverSignal(s os.Signal) bool {
	took := false
	for _, r := range sigRegs {
		if !sigMatches(r, s) {
			continue
		}
		took = true
		if r.ch != nil {
			select {
			case r.ch <- s:
			default:
			}
		}
		if r.cancel != nil {
			r.cancel()
		}
	}
	if cur != nil {
		cur.WorldUse["signal-delivered"]++
	}
	return took
}

func SignalNotify(c chan<- os.Signal, sig ...os.Signal) {
	use("signal-handler")
	mu.Lock()
	sigRegs = append(sigRegs, &sigReg{ch: c, sigs: sig})
	mu.Unlock()
}

func SignalNotifyContext(parent context.Context, sig ...os.Signal) (context.Context, context.CancelFunc) {
	use("signal-handler")
	ctx, cancel := context.WithCancel(parent)
	r := &sigReg{cancel: cancel, sigs: sig}
	mu.Lock()
	sigRegs = append(sigRegs, r)
	mu.Unlock()
	return ctx, func() {
		mu.Lock()
		for i, x := range sigRegs {
			if x == r {
				sigRegs = append(sigRegs[:i], sigRegs[i+1:]...)
				break
			}
		}
		mu.Unlock()
		cancel()
	}
}

func SignalStop(c chan<- os.Signal) {
	mu.Lock()
	for i := 0; i < len(sigRegs); i++ {
		if sigRegs[i].ch == c {
			sigRegs = append(sigRegs[:i], sigRegs[i+1:]...)
			i--
		}
	}
	mu.Unlock()
}

func SignalIgnore(sig ...os.Signal) {
	mu.Lock()
	sigRegs = append(sigRegs, &sigReg{sigs: sig})
	mu.Unlock()
}

func SignalReset(sig ...os.Signal) {
	mu.Lock()
	sigRegs = nil
	mu.Unlock()
}

// Flock stands in for syscall.Flock: a file on which another process holds a lock for the whole run can
// be locked with LOCK_NB only (EWOULDBLOCK); a blocking request never returns.
func Flock(fd int, how int) error {
	use("flock")
	mu.Lock()
	name := fdNames[uintptr(fd)]
	locked := false
	if cur != nil {
		for _, p := range cur.LockedPaths {
			if a, err := filepath.Abs(p); err == nil {
				if b, err := filepath.Abs(name); err == nil && a == b && name != "" {
					locked = true
				}
			}
		}
	}
	mu.Unlock()
	if locked && how&syscall.LOCK_UN == 0 {
		if how&syscall.LOCK_NB != 0 {
			return syscall.EWOULDBLOCK
		}
		panic(Unbounded{"flock on " + name + " waits for a lock that another process holds for ever"})
	}
	return nil
}

var fdNames = map[uintptr]string{}
