package simrt

import (
	"context"
	"fmt"
	"io"
	"io/fs"
	"os"
	"os/user"
	"time"

	"verifsim/choice"
)

// ---------------------------------------------------------------------------------------
// standard streams

type stdStream struct {
	fd   uintptr
	name string
}

func (s *stdStream) write(p []byte) (int, error) {
	mu.Lock()
	defer mu.Unlock()
	if cur == nil {
		if s.fd == 2 {
			return os.Stderr.Write(p)
		}
		return os.Stdout.Write(p)
	}
	cur.stdWrites++
	if cur.StdoutFailFrom > 0 && cur.stdWrites >= cur.StdoutFailFrom {
		cur.WorldUse["stdout-write-failed"]++
		return 0, &fs.PathError{Op: "write", Path: s.name, Err: errnoByName["ENOSPC"]}
	}
	if s.fd == 2 {
		return cur.Stderr.Write(p)
	}
	return cur.Stdout.Write(p)
}

var (
	Stdout = &File{name: "/dev/stdout", std: &stdStream{fd: 1}}
	Stderr = &File{name: "/dev/stderr", std: &stdStream{fd: 2}}
	Stdin  = &File{name: "/dev/stdin", std: &stdStream{fd: 0}}
)

// fmt.Print* write to the real descriptor 1 inside package fmt; rewritten code goes here.
func Print(a ...any) (int, error)            { return fmt.Fprint(Stdout, a...) }
func Println(a ...any) (int, error)          { return fmt.Fprintln(Stdout, a...) }
func Printf(f string, a ...any) (int, error) { return fmt.Fprintf(Stdout, f, a...) }
func Fwriter(w io.Writer) io.Writer          { return w }

// ---------------------------------------------------------------------------------------
// environment, identity

func Getenv(k string) string {
	mu.Lock()
	if cur != nil {
		cur.EnvReads = append(cur.EnvReads, k)
	}
	mu.Unlock()
	return os.Getenv(k)
}
func LookupEnv(k string) (string, bool) {
	mu.Lock()
	if cur != nil {
		cur.EnvReads = append(cur.EnvReads, k)
	}
	mu.Unlock()
	return os.LookupEnv(k)
}
func Environ() []string {
	mu.Lock()
	if cur != nil {
		cur.EnvReads = append(cur.EnvReads, "*")
	}
	mu.Unlock()
	return os.Environ()
}
func ExpandEnv(s string) string { return os.Expand(s, Getenv) }
func Setenv(k, v string) error  { return os.Setenv(k, v) }
func Unsetenv(k string) error   { return os.Unsetenv(k) }
func Getwd() (string, error) {
	use("getwd")
	return os.Getwd()
}
func Chdir(d string) error { use("chdir"); return os.Chdir(d) }
func Getpid() int {
	use("pid")
	if cur != nil {
		return cur.Pid
	}
	return os.Getpid()
}
func Getppid() int { use("pid"); return 1 }

// user and machine identity are derived from the run's simulated pid, so the clock/random/identity
// twin of C08 moves them together with it
func simID() int {
	if cur != nil {
		return cur.Pid
	}
	return 0
}
func Getuid() int  { use("uid"); return 1000 + simID()%7 }
func Geteuid() int { use("uid"); return 1000 + simID()%7 }
func Getgid() int  { use("uid"); return 1000 + simID()%5 }

// NumCPU / GOMAXPROCS: the machine the tool runs on is not an input of the build
func NumCPU() int { use("ncpu"); return 1 + simID()%16 }
func GOMAXPROCS(n int) int {
	use("ncpu")
	return 1 + (simID()/3)%16
}

// UserCurrent stands in for os/user.Current
func UserCurrent() (*user.User, error) {
	use("uid")
	name := Getenv("USER")
	if name == "" {
		name = fmt.Sprintf("u%d", Getuid())
	}
	return &user.User{Uid: fmt.Sprint(Getuid()), Gid: fmt.Sprint(Getgid()), Username: name, Name: name, HomeDir: Getenv("HOME")}, nil
}
func Hostname() (string, error) {
	use("host")
	if cur != nil {
		return cur.Host, nil
	}
	return os.Hostname()
}
func UserHomeDir() (string, error) {
	use("home")
	if h := Getenv("HOME"); h != "" {
		return h, nil
	}
	return "", fmt.Errorf("$HOME is not defined")
}
func UserCacheDir() (string, error)  { h, err := UserHomeDir(); return h + "/.cache", err }
func UserConfigDir() (string, error) { h, err := UserHomeDir(); return h + "/.config", err }
func Executable() (string, error)    { use("executable"); return os.Executable() }

// ---------------------------------------------------------------------------------------
// clock (there are no timers in the system; any use at all is a dependence C08 can see)

func Now() time.Time {
	use("clock")
	mu.Lock()
	defer mu.Unlock()
	if cur == nil {
		return time.Now()
	}
	cur.Clock = cur.Clock.Add(time.Millisecond)
	return cur.Clock.In(time.Local) // as time.Now does; the harness sets time.Local from the run's $TZ
}
func Since(t time.Time) time.Duration { return Now().Sub(t) }
func Until(t time.Time) time.Duration { return t.Sub(Now()) }
func Sleep(d time.Duration) {
	use("sleep")
	mu.Lock()
	if cur != nil {
		cur.Clock = cur.Clock.Add(d)
	}
	mu.Unlock()
}

// ---------------------------------------------------------------------------------------
// randomness

func rnd() uint64 {
	use("rand")
	mu.Lock()
	defer mu.Unlock()
	if cur == nil {
		return uint64(time.Now().UnixNano())
	}
	cur.rnd = choice.Mix(cur.rnd, 1)
	return cur.rnd
}

func RandInt() int             { return int(rnd() >> 1) }
func RandIntn(n int) int       { return int(rnd() % uint64(n)) }
func RandInt63() int64         { return int64(rnd() >> 1) }
func RandInt63n(n int64) int64 { return int64(rnd() % uint64(n)) }
func RandInt31() int32         { return int32(rnd() >> 33) }
func RandInt31n(n int32) int32 { return int32(rnd() % uint64(n)) }
func RandUint32() uint32       { return uint32(rnd()) }
func RandUint64() uint64       { return rnd() }
func RandFloat64() float64     { return float64(rnd()>>11) / (1 << 53) }
func RandSeed(int64)           {}
func RandPerm(n int) []int {
	p := make([]int, n)
	for i := range p {
		p[i] = i
	}
	RandShuffle(n, func(i, j int) { p[i], p[j] = p[j], p[i] })
	return p
}
func RandShuffle(n int, swap func(i, j int)) {
	for i := n - 1; i > 0; i-- {
		swap(i, int(rnd()%uint64(i+1)))
	}
}
func RandRead(p []byte) (int, error) {
	for i := range p {
		p[i] = byte(rnd())
	}
	return len(p), nil
}

// ---------------------------------------------------------------------------------------
// timers ("buggify"): a deadline may expire although little real time has passed - the process
// was descheduled, the VM paused, the machine is overloaded. Whether deadlines of this run expire
// at once is drawn from the run's random seed, so the choice replays.

func stalled() bool {
	mu.Lock()
	defer mu.Unlock()
	if cur == nil {
		return false
	}
	cur.WorldUse["timer"]++
	if choice.Mix(cur.RandSeed, 0x5741)%3 == 0 {
		cur.WorldUse["timer-expired-at-once"]++
		return true
	}
	return false
}

// After is time.After under the run's stall policy.
func After(d time.Duration) <-chan time.Time {
	if stalled() {
		ch := make(chan time.Time, 1)
		ch <- Now()
		return ch
	}
	return time.After(d)
}

// WithTimeout is context.WithTimeout under the run's stall policy.
func WithTimeout(parent context.Context, d time.Duration) (context.Context, context.CancelFunc) {
	if stalled() {
		return context.WithDeadline(parent, time.Unix(0, 0))
	}
	return context.WithTimeout(parent, d)
}

// WithDeadline is context.WithDeadline under the run's stall policy.
func WithDeadline(parent context.Context, t time.Time) (context.Context, context.CancelFunc) {
	if stalled() {
		return context.WithDeadline(parent, time.Unix(0, 0))
	}
	return context.WithDeadline(parent, t)
}
