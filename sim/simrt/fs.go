package simrt

import (
	"errors"
	"io"
	"io/fs"
	"os"
	"path/filepath"
	"sort"
	"strings"
	"syscall"

	"time"

	"verifsim/choice"
	"verifsim/sched"
)

var errnoByName = map[string]syscall.Errno{
	"ENOENT": syscall.ENOENT, "EACCES": syscall.EACCES, "EISDIR": syscall.EISDIR, "ENOTDIR": syscall.ENOTDIR,
	"EIO": syscall.EIO, "ENOSPC": syscall.ENOSPC, "EROFS": syscall.EROFS, "EMFILE": syscall.EMFILE,
	"EXDEV": syscall.EXDEV, "EPERM": syscall.EPERM, "EDQUOT": syscall.EDQUOT, "EINTR": syscall.EINTR,
	"EEXIST": syscall.EEXIST, "EBUSY": syscall.EBUSY, "EPIPE": syscall.EPIPE, "EBADF": syscall.EBADF,
	"ETXTBSY": syscall.ETXTBSY, "ENAMETOOLONG": syscall.ENAMETOOLONG, "ELOOP": syscall.ELOOP, "EAGAIN": syscall.EAGAIN, "ENOTSUP": syscall.ENOTSUP,
}

// IsErrno reports whether kind names an error-returning fault (as opposed to a corruption).
func IsErrno(kind string) bool { _, ok := errnoByName[kind]; return ok }

// MaxOps bounds the recorded history of one run.
const MaxOps = 200000

// op records an operation and returns the fault planned for it, if any.
func op(kind, path string) (seq int, f *Fault) {
	GateWait()
	sched.Yield("fs." + kind) // with several goroutines in the program: who performs the next file operation is the scheduler's choice
	mu.Lock()
	defer mu.Unlock()
	if cur == nil {
		return -1, nil
	}
	if cur.dead {
		// the process was killed: nothing it still does (deferred clean-ups while the simulation unwinds) reaches the disk
		return -1, &Fault{Kind: "EIO", OpKind: kind}
	}
	if len(cur.Ops) >= MaxOps {
		// a run that performs this many operations on a bounded world is spinning (a retry loop that never gives up)
		cur.WorldUse["ops-beyond-recording-cap"]++
		panic(Unbounded{"more than 200000 file operations in one build: the command does not come to an end"})
	}
	if cur.Persist != nil && cur.Persist.OpKind == kind {
		// a persistent condition (the file is busy for good, the device stays full): every operation of the kind fails
		seq = len(cur.Ops)
		cur.Ops = append(cur.Ops, Op{Seq: seq, Kind: kind, Path: path, Fault: cur.Persist.Kind})
		if len(cur.Fired) < 4 {
			cur.Fired = append(cur.Fired, *cur.Persist)
		}
		return seq, cur.Persist
	}
	seq = len(cur.Ops)
	cur.Ops = append(cur.Ops, Op{Seq: seq, Kind: kind, Path: path})
	if cur.SlowSeed != 0 {
		// a slow disk, a network mount, a late writer on a pipe: one operation in four takes between
		// half a second and five seconds of simulated time
		if r := choice.Mix(cur.SlowSeed, uint64(seq)); r%4 == 0 {
			cur.Clock = cur.Clock.Add(500*time.Millisecond + time.Duration((r>>8)%4500)*time.Millisecond)
			cur.WorldUse["slow-operations"]++
		}
	}
	for i := range cur.Faults {
		if cur.Faults[i].At == seq && cur.Faults[i].OpKind == kind {
			f = &cur.Faults[i]
			cur.Ops[seq].Fault = f.Kind
			cur.Fired = append(cur.Fired, *f)
			break
		}
	}
	if f != nil && (f.Kind == "SIGTERM" || f.Kind == "SIGINT") {
		// a signal arrives just before this operation: handlers the program installed get it and the
		// program goes on; without a handler the process dies here
		sig := sigByName[f.Kind]
		if deliverSignal(sig) {
			return seq, nil
		}
		cur.dead = true
		cur.Killed = f.Kind
		panic(ExitPanic{Code: 128 + int(sig.(syscall.Signal))}) // (the deferred Unlock runs)
	}
	return seq, f
}

func opDone(seq int, n int, err error) {
	mu.Lock()
	defer mu.Unlock()
	if cur == nil || seq < 0 {
		return
	}
	cur.Ops[seq].N = n
	if err != nil {
		cur.Ops[seq].Err = err.Error()
	}
}

func pathErr(opname, path, kind string) error {
	return &fs.PathError{Op: opname, Path: path, Err: errnoByName[kind]}
}

// ---------------------------------------------------------------------------------------
// File: a real *os.File under the fault layer.

type File struct {
	f     *os.File
	name  string
	write bool
	std   *stdStream
	dev   *vdev
}

func wrap(f *os.File, name string, write bool) *File { return &File{f: f, name: name, write: write} }

func (f *File) Name() string { return f.name }
func (f *File) Fd() uintptr {
	if f.std != nil {
		return f.std.fd
	}
	if f.dev != nil {
		return ^uintptr(0)
	}
	fd := f.f.Fd()
	mu.Lock()
	fdNames[fd] = f.name // for Flock
	mu.Unlock()
	return fd
}

func (f *File) Write(p []byte) (int, error) {
	if f.std != nil {
		return f.std.write(p)
	}
	seq, ft := op("write", f.name)
	if ft != nil && IsErrno(ft.Kind) {
		k := ft.Arg
		if k > len(p) {
			k = len(p)
		}
		if k < 0 {
			k = 0
		}
		n := 0
		if k > 0 {
			n, _ = f.rawWrite(p[:k])
		}
		err := pathErr("write", f.name, ft.Kind)
		opDone(seq, n, err)
		return n, err
	}
	n, err := f.rawWrite(p)
	opDone(seq, n, err)
	return n, err
}

func (f *File) rawWrite(p []byte) (int, error) {
	if f.dev != nil {
		return f.dev.write(p)
	}
	return f.f.Write(p)
}

func (f *File) WriteString(s string) (int, error) { return f.Write([]byte(s)) }

func (f *File) WriteAt(p []byte, off int64) (int, error) {
	seq, ft := op("write", f.name)
	if ft != nil && IsErrno(ft.Kind) {
		err := pathErr("write", f.name, ft.Kind)
		opDone(seq, 0, err)
		return 0, err
	}
	if f.dev != nil {
		n, err := f.dev.write(p)
		opDone(seq, n, err)
		return n, err
	}
	n, err := f.f.WriteAt(p, off)
	opDone(seq, n, err)
	return n, err
}

func (f *File) ReadFrom(r io.Reader) (int64, error) {
	// route through Write so that faults apply
	buf := make([]byte, 32*1024)
	var total int64
	for {
		n, err := r.Read(buf)
		if n > 0 {
			m, werr := f.Write(buf[:n])
			total += int64(m)
			if werr != nil {
				return total, werr
			}
		}
		if err == io.EOF {
			return total, nil
		}
		if err != nil {
			return total, err
		}
	}
}

func (f *File) Read(p []byte) (int, error) {
	if f.dev != nil {
		return f.dev.read(p)
	}
	if f.std != nil {
		return 0, io.EOF
	}
	seq, ft := op("read", f.name)
	if ft != nil && IsErrno(ft.Kind) {
		k := ft.Arg
		if k > len(p) {
			k = len(p)
		}
		n := 0
		if k > 0 {
			n, _ = f.f.Read(p[:k])
		}
		if n > 0 { // short read now, error on the next call is what a kernel does; deliver both in one step
			err := pathErr("read", f.name, ft.Kind)
			opDone(seq, n, err)
			return n, err
		}
		err := pathErr("read", f.name, ft.Kind)
		opDone(seq, 0, err)
		return 0, err
	}
	n, err := f.f.Read(p)
	opDone(seq, n, err)
	return n, err
}

func (f *File) ReadAt(p []byte, off int64) (int, error) {
	if f.dev != nil {
		return 0, io.EOF
	}
	return f.f.ReadAt(p, off)
}
func (f *File) Seek(o int64, w int) (int64, error) {
	if f.dev != nil {
		return 0, nil
	}
	return f.f.Seek(o, w)
}
func (f *File) Stat() (fs.FileInfo, error) {
	if f.dev != nil {
		return devInfo{f.dev}, nil
	}
	return f.f.Stat()
}
func (f *File) Chmod(m fs.FileMode) error {
	seq, ft := op("chmod", f.name)
	if ft != nil && IsErrno(ft.Kind) {
		err := pathErr("chmod", f.name, ft.Kind)
		opDone(seq, 0, err)
		return err
	}
	var err error
	if f.dev == nil {
		err = f.f.Chmod(m)
	}
	opDone(seq, 0, err)
	return err
}
func (f *File) Truncate(n int64) error {
	seq, ft := op("truncate", f.name)
	if ft != nil && IsErrno(ft.Kind) {
		err := pathErr("truncate", f.name, ft.Kind)
		opDone(seq, 0, err)
		return err
	}
	var err error
	if f.dev == nil {
		err = f.f.Truncate(n)
	}
	opDone(seq, 0, err)
	return err
}
func (f *File) Sync() error {
	if f.std != nil {
		return nil
	}
	seq, ft := op("sync", f.name)
	if ft != nil && IsErrno(ft.Kind) {
		err := pathErr("sync", f.name, ft.Kind)
		opDone(seq, 0, err)
		return err
	}
	var err error
	if f.dev == nil {
		err = f.f.Sync()
	}
	opDone(seq, 0, err)
	return err
}
func (f *File) Close() error {
	if f.std != nil {
		return nil
	}
	kind := "close-r"
	if f.write {
		kind = "close-w"
	}
	seq, ft := op(kind, f.name)
	if ft != nil && IsErrno(ft.Kind) {
		if f.dev == nil {
			_ = f.f.Close() // the descriptor is released, the data may or may not be on disk
		}
		err := pathErr("close", f.name, ft.Kind)
		opDone(seq, 0, err)
		return err
	}
	var err error
	if f.dev == nil {
		err = f.f.Close()
	}
	opDone(seq, 0, err)
	return err
}
func (f *File) ReadDir(n int) ([]fs.DirEntry, error) {
	es, err := f.f.ReadDir(n)
	permuteEntries(es, f.name)
	return es, err
}
func (f *File) Readdirnames(n int) ([]string, error) {
	names, err := f.f.Readdirnames(n)
	permuteNames(names, f.name)
	return names, err
}

// ---------------------------------------------------------------------------------------
// opening

func OpenFile(name string, flag int, perm fs.FileMode) (*File, error) {
	write := flag&(os.O_WRONLY|os.O_RDWR|os.O_CREATE|os.O_TRUNC|os.O_APPEND) != 0
	kind := "open-r"
	if write {
		kind = "open-w"
	}
	seq, ft := op(kind, name)
	if ft != nil && IsErrno(ft.Kind) {
		err := pathErr("open", name, ft.Kind)
		opDone(seq, 0, err)
		return nil, err
	}
	if d := lookupVDev(name); d != nil {
		if d.replaced && flag&os.O_TRUNC != 0 {
			d.content = nil
		}
		opDone(seq, 0, nil)
		return &File{name: name, write: write, dev: d}, nil
	}
	if write && outside(name) {
		err := denyWrite("open", name)
		opDone(seq, 0, err)
		return nil, err
	}
	f, err := os.OpenFile(name, flag, perm)
	opDone(seq, 0, err)
	if err != nil {
		return nil, err
	}
	return wrap(f, name, write), nil
}

func Open(name string) (*File, error) { return OpenFile(name, os.O_RDONLY, 0) }
func Create(name string) (*File, error) {
	return OpenFile(name, os.O_RDWR|os.O_CREATE|os.O_TRUNC, 0666)
}

// temp names are random in reality: here they derive from the run's random seed, so a name
// leaking into an observable shows up as a divergence between twins
func tmpName() string {
	mu.Lock()
	defer mu.Unlock()
	if cur == nil {
		return "sim0"
	}
	cur.tmpCounter++
	return "sim" + itoa(int(choice.Mix(cur.RandSeed, uint64(cur.tmpCounter))%1000000000))
}

func CreateTemp(dir, pattern string) (*File, error) {
	if dir == "" {
		dir = TempDir()
	}
	seq, ft := op("create-temp", filepath.Join(dir, pattern))
	if ft != nil && IsErrno(ft.Kind) {
		err := pathErr("open", filepath.Join(dir, pattern), ft.Kind)
		opDone(seq, 0, err)
		return nil, err
	}
	if outside(dir) {
		err := denyWrite("open", filepath.Join(dir, pattern))
		opDone(seq, 0, err)
		return nil, err
	}
	// deterministic name: the real one is random
	prefix, suffix := pattern, ""
	if i := strings.LastIndex(pattern, "*"); i >= 0 {
		prefix, suffix = pattern[:i], pattern[i+1:]
	}
	for try := 0; try < 10000; try++ {
		name := filepath.Join(dir, prefix+tmpName()+suffix)
		f, err := os.OpenFile(name, os.O_RDWR|os.O_CREATE|os.O_EXCL, 0600)
		if errors.Is(err, fs.ErrExist) {
			continue
		}
		opDone(seq, 0, err)
		if err != nil {
			return nil, err
		}
		mu.Lock()
		if cur != nil {
			cur.Ops[seq].Path = name
		}
		mu.Unlock()
		return wrap(f, name, true), nil
	}
	return nil, pathErr("open", dir, "EEXIST")
}

func itoa(i int) string {
	if i == 0 {
		return "0"
	}
	s := ""
	for i > 0 {
		s = string(rune('0'+i%10)) + s
		i /= 10
	}
	return s
}

func MkdirTemp(dir, pattern string) (string, error) {
	if dir == "" {
		dir = TempDir()
	}
	tn := tmpName()
	name := filepath.Join(dir, strings.Replace(pattern, "*", tn, 1))
	if !strings.Contains(pattern, "*") {
		name = filepath.Join(dir, pattern+tn)
	}
	return name, Mkdir(name, 0700)
}

// TempDir is a directory inside the run's private world, so that temp files are observed.
func TempDir() string {
	use("tempdir")
	// as os.TempDir: $TMPDIR, else /tmp (which is outside the run's world: creating files there is refused);
	// the harness points TMPDIR into the world
	if d := Getenv("TMPDIR"); d != "" {
		return d
	}
	return "/tmp"
}

// ---------------------------------------------------------------------------------------
// whole-file helpers, implemented as the standard library implements them, on top of the
// fault-able primitives, so that truncate-then-fail is modelled and not assumed away.

func ReadFile(name string) ([]byte, error) {
	f, err := Open(name)
	if err != nil {
		return nil, err
	}
	defer f.Close()
	var data []byte
	buf := make([]byte, 64*1024)
	for {
		n, err := f.Read(buf)
		data = append(data, buf[:n]...)
		if err != nil {
			if err == io.EOF {
				err = nil
			}
			if err == nil {
				data = corrupt(name, data)
			}
			return data, err
		}
	}
}

// corrupt applies a content-corruption fault planned for the *open-r* of this read, if any.
func corrupt(name string, data []byte) []byte {
	mu.Lock()
	defer mu.Unlock()
	if cur == nil {
		return data
	}
	for i := len(cur.Ops) - 1; i >= 0; i-- {
		o := cur.Ops[i]
		if o.Kind == "open-r" && o.Path == name {
			for _, ft := range cur.Faults {
				if ft.At == o.Seq && ft.OpKind == "corrupt" {
					cur.Ops[i].Fault = ft.Kind
					cur.Fired = append(cur.Fired, ft)
					return Corrupt(data, ft.Kind, ft.Arg)
				}
			}
			break
		}
	}
	return data
}

// Corrupt is the pure content transformation of a corruption fault (also used by the harness
// to build the reference world that really contains the corrupted bytes).
func Corrupt(data []byte, kind string, arg int) []byte {
	n := len(data)
	if n == 0 {
		return data
	}
	at := arg % (n + 1)
	out := append([]byte{}, data...)
	switch kind {
	case "trunc":
		return out[:at]
	case "flip":
		if at >= n {
			at = n - 1
		}
		out[at] ^= byte(1 << uint(arg%8))
		if out[at] == data[at] {
			out[at] ^= 0x20
		}
		return out
	case "zero":
		for i := at; i < n && i < at+16; i++ {
			out[i] = 0
		}
		return out
	case "dup":
		end := at + 32
		if end > n {
			end = n
		}
		return append(append(append([]byte{}, data[:end]...), data[at:end]...), data[end:]...)
	case "splice":
		// second half first: what a reader racing a rewriting writer can see
		return append(append([]byte{}, data[at:]...), data[:at]...)
	}
	return out
}

func WriteFile(name string, data []byte, perm fs.FileMode) error {
	f, err := OpenFile(name, os.O_WRONLY|os.O_CREATE|os.O_TRUNC, perm)
	if err != nil {
		return err
	}
	_, err = f.Write(data)
	if err1 := f.Close(); err1 != nil && err == nil {
		err = err1
	}
	return err
}

// ---------------------------------------------------------------------------------------
// metadata operations

func simple(kind, opname, path string, do func() error) error {
	seq, ft := op(kind, path)
	if ft != nil && IsErrno(ft.Kind) {
		err := pathErr(opname, path, ft.Kind)
		opDone(seq, 0, err)
		return err
	}
	var err error
	if anyProtected(path) {
		err = denyWrite(opname, path)
	} else {
		err = do()
	}
	opDone(seq, 0, err)
	return err
}

// anyProtected: path (or "a -> b") touches a virtual device or leaves the private tree.
func anyProtected(path string) bool {
	for _, p := range strings.Split(path, " -> ") {
		if lookupVDev(p) != nil || outside(p) {
			return true
		}
	}
	return false
}

func Rename(oldpath, newpath string) error {
	seq, ft := op("rename", oldpath+" -> "+newpath)
	if ft != nil && IsErrno(ft.Kind) {
		err := &os.LinkError{Op: "rename", Old: oldpath, New: newpath, Err: errnoByName[ft.Kind]}
		opDone(seq, 0, err)
		return err
	}
	var err error
	if d := lookupVDev(newpath); d != nil && !outside(oldpath) {
		// the device node is replaced by the renamed file (virtually: the real node is untouched)
		b, rerr := os.ReadFile(oldpath)
		if rerr != nil {
			err = &os.LinkError{Op: "rename", Old: oldpath, New: newpath, Err: errnoByName["ENOENT"]}
		} else {
			_ = os.Remove(oldpath)
			d.replaced, d.content = true, b
			use("virtual-device-replaced-by-rename")
		}
	} else if outside(oldpath) || outside(newpath) {
		err = &os.LinkError{Op: "rename", Old: oldpath, New: newpath, Err: errnoByName["EACCES"]}
		use("write-outside-world-refused")
	} else {
		err = os.Rename(oldpath, newpath)
	}
	opDone(seq, 0, err)
	return err
}
func Remove(name string) error {
	return simple("remove", "remove", name, func() error { return os.Remove(name) })
}
func RemoveAll(name string) error {
	return simple("remove", "remove", name, func() error { return os.RemoveAll(name) })
}
func Mkdir(name string, perm fs.FileMode) error {
	return simple("mkdir", "mkdir", name, func() error { return os.Mkdir(name, perm) })
}
func MkdirAll(name string, perm fs.FileMode) error {
	return simple("mkdir", "mkdir", name, func() error { return os.MkdirAll(name, perm) })
}
func Chmod(name string, m fs.FileMode) error {
	return simple("chmod", "chmod", name, func() error { return os.Chmod(name, m) })
}
func Truncate(name string, n int64) error {
	return simple("truncate", "truncate", name, func() error { return os.Truncate(name, n) })
}
func Link(o, n string) error {
	return simple("rename", "link", o+" -> "+n, func() error { return os.Link(o, n) })
}
func Symlink(o, n string) error {
	return simple("rename", "symlink", o+" -> "+n, func() error { return os.Symlink(o, n) })
}
func Readlink(name string) (string, error) { return os.Readlink(name) }
func Chown(name string, u, g int) error    { return nil }

func Stat(name string) (fs.FileInfo, error) {
	seq, ft := op("stat", name)
	if ft != nil && IsErrno(ft.Kind) {
		err := pathErr("stat", name, ft.Kind)
		opDone(seq, 0, err)
		return nil, err
	}
	if d := lookupVDev(name); d != nil {
		opDone(seq, 0, nil)
		return devInfo{d}, nil
	}
	fi, err := os.Stat(name)
	opDone(seq, 0, err)
	return fi, err
}
func Lstat(name string) (fs.FileInfo, error) {
	seq, ft := op("stat", name)
	if ft != nil && IsErrno(ft.Kind) {
		err := pathErr("lstat", name, ft.Kind)
		opDone(seq, 0, err)
		return nil, err
	}
	if d := lookupVDev(name); d != nil {
		opDone(seq, 0, nil)
		return devInfo{d}, nil
	}
	fi, err := os.Lstat(name)
	opDone(seq, 0, err)
	return fi, err
}

// ---------------------------------------------------------------------------------------
// listings: the real order is sorted; a correct program must not rely on any order, so the
// run's listing schedule permutes it.

func listSeed(dir string) uint64 {
	if cur == nil {
		return 0
	}
	// the name of the run's private directory differs from process to process: it must not decide the order
	for _, r := range []string{cur.Root2, cur.Root} {
		if r != "" && strings.HasPrefix(dir, r) {
			dir = "$ROOT" + strings.TrimPrefix(dir, r)
			break
		}
	}
	return choice.MixS(cur.ListSeed, dir)
}

func permuteNames(names []string, dir string) {
	sort.Strings(names)
	if cur == nil || len(names) < 2 || cur.ListSeed == 0 {
		return
	}
	use("listing-permuted")
	permute(names, listSeed(dir))
}

func permuteEntries(es []fs.DirEntry, dir string) {
	sort.Slice(es, func(i, j int) bool { return es[i].Name() < es[j].Name() })
	if cur == nil || len(es) < 2 || cur.ListSeed == 0 {
		return
	}
	use("listing-permuted")
	permute(es, listSeed(dir))
}

func ReadDir(name string) ([]fs.DirEntry, error) {
	seq, _ := op("readdir", name)
	es, err := os.ReadDir(name)
	opDone(seq, len(es), err)
	permuteEntries(es, name)
	return es, err
}

// Glob is filepath.Glob with the result order decided by the listing schedule.
func Glob(pattern string) ([]string, error) {
	seq, _ := op("glob", pattern)
	m, err := filepath.Glob(pattern)
	opDone(seq, len(m), err)
	if err != nil {
		return m, err
	}
	permuteNames(m, "glob:"+pattern)
	return m, nil
}

func Walk(root string, fn filepath.WalkFunc) error {
	use("walk")
	return filepath.Walk(root, fn)
}
func WalkDir(root string, fn fs.WalkDirFunc) error {
	use("walk")
	return filepath.WalkDir(root, fn)
}
func Abs(p string) (string, error) {
	use("abs")
	return filepath.Abs(p)
}
func EvalSymlinks(p string) (string, error) { return filepath.EvalSymlinks(p) }
