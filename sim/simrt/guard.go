package simrt

import (
	"io"
	"io/fs"
	"os"
	"path/filepath"
	"strings"
	"time"
)

// The simulated world is a private directory tree (Ctl.Root). Nothing the program under
// simulation does may modify the real system outside it: an injected fault can steer a
// program into, say, renaming a temporary file over /dev/null. Therefore
//   - /dev/null and /dev/full are *virtual* devices implemented here (the real ones are never
//     opened, replaced or removed);
//   - any other absolute path outside Root is read-only: modifying operations fail with EACCES
//     (what an unprivileged user would get) and are counted.

type vdev struct {
	name     string
	full     bool // writes fail with ENOSPC
	endless  bool // reads never reach an end: /dev/zero delivers zeros for ever, a pipe with a live writer blocks for ever
	pipe     bool // a named pipe (FIFO) with a reader and a writer attached elsewhere
	reads    int
	replaced bool // a rename/remove replaced the device node by something else
	content  []byte
}

func (c *Ctl) vdevs() map[string]*vdev {
	if c.devs == nil {
		c.devs = map[string]*vdev{"/dev/null": {name: "/dev/null"}, "/dev/full": {name: "/dev/full", full: true},
			"/dev/zero": {name: "/dev/zero", endless: true}, VPipe: {name: VPipe, endless: true, pipe: true}}
	}
	return c.devs
}

// VDevState reports what became of a virtual device during the run.
func (c *Ctl) VDevState(path string) (isDev bool, replaced bool, content []byte) {
	d, ok := c.vdevs()[filepath.Clean(path)]
	if !ok {
		return false, false, nil
	}
	return true, d.replaced, d.content
}

func lookupVDev(p string) *vdev {
	if cur == nil || !filepath.IsAbs(p) {
		return nil
	}
	return cur.vdevs()[filepath.Clean(p)]
}

// outside reports whether p is an absolute path outside the run's private tree.
func outside(p string) bool {
	if cur == nil || cur.Root == "" {
		return false
	}
	if !filepath.IsAbs(p) {
		abs, err := filepath.Abs(p)
		if err != nil {
			return false
		}
		p = abs
	}
	p = filepath.Clean(p)
	for _, r := range []string{cur.Root, cur.Root2} {
		if r == "" {
			continue
		}
		root := filepath.Clean(r)
		if p == root || strings.HasPrefix(p, root+string(filepath.Separator)) {
			return false
		}
	}
	return true
}

func denyWrite(opname, p string) error {
	use("write-outside-world-refused")
	return &fs.PathError{Op: opname, Path: p, Err: errnoByName["EACCES"]}
}

// VPipe is a virtual named pipe whose other ends are held open by some consumer: writes are taken,
// a read would wait for ever.
const VPipe = "/run/verifsim/consumer.pipe"

// Unbounded is the panic value of a read that can never finish (the harness reports the run as a hang).
type Unbounded struct{ What string }

type devInfo struct{ d *vdev }

func (i devInfo) Name() string { return filepath.Base(i.d.name) }
func (i devInfo) Size() int64  { return int64(len(i.d.content)) }
func (i devInfo) Mode() fs.FileMode {
	if i.d.replaced {
		return 0644
	}
	if i.d.pipe {
		return fs.ModeNamedPipe | 0644
	}
	return fs.ModeDevice | fs.ModeCharDevice | 0666
}
func (i devInfo) ModTime() time.Time { return time.Unix(0, 0) }
func (i devInfo) IsDir() bool        { return false }
func (i devInfo) Sys() any           { return nil }

func (d *vdev) write(p []byte) (int, error) {
	if d.replaced {
		d.content = append(d.content, p...)
		return len(p), nil
	}
	if d.full {
		return 0, &fs.PathError{Op: "write", Path: d.name, Err: errnoByName["ENOSPC"]}
	}
	return len(p), nil
}

func (d *vdev) read(p []byte) (int, error) {
	if d.endless && !d.replaced {
		if d.pipe {
			panic(Unbounded{"read from " + d.name + " blocks for ever (a pipe whose writer never closes)"})
		}
		d.reads++
		if d.reads > 256 {
			panic(Unbounded{"reading " + d.name + " never reaches an end of file"})
		}
		for i := range p {
			p[i] = 0
		}
		return len(p), nil
	}
	return 0, io.EOF
}

// realFileFor is used where an *os.File is unavoidable.
func realNull() *os.File { f, _ := os.Open(os.DevNull); return f }
