package gen

import (
	"strconv"

	"verifsim/choice"
)

// YMut mutates a rendered YAML tree (used for defects that cannot be expressed in the model).
type YMut func(src *choice.Src, root *Y)

// Split distributes cfg over n partial configurations whose in-order merge equals cfg
// (entries whole, and for some services attribute-wise: scalar attributes in one part,
// fields/tags/calls possibly in a later one).
func Split(src *choice.Src, c *Cfg, n int) []*Cfg {
	parts := make([]*Cfg, n)
	for i := range parts {
		parts[i] = &Cfg{}
	}
	if n == 1 {
		cp := *c
		parts[0] = &cp
		return parts
	}
	pick := func(l string) *Cfg { return parts[src.Draw(l, n)] }
	if c.Version != nil {
		pick("split.version").Version = c.Version
	}
	if c.Meta.Pkg != nil {
		pick("split.meta").Meta.Pkg = c.Meta.Pkg
	}
	if c.Meta.CType != nil {
		pick("split.meta").Meta.CType = c.Meta.CType
	}
	if c.Meta.CCtor != nil {
		pick("split.meta").Meta.CCtor = c.Meta.CCtor
	}
	if c.Meta.DefaultMustGetter != nil {
		pick("split.meta").Meta.DefaultMustGetter = c.Meta.DefaultMustGetter
	}
	for _, kv := range c.Meta.Imports {
		p := pick("split.import")
		p.Meta.Imports = append(p.Meta.Imports, kv)
	}
	for _, kv := range c.Meta.Functions {
		p := pick("split.fn")
		p.Meta.Functions = append(p.Meta.Functions, kv)
	}
	for _, pa := range c.Params {
		p := pick("split.param")
		p.Params = append(p.Params, pa)
	}
	for _, s := range c.Services {
		a := src.Draw("split.svc", n)
		if s.Todo && (s.Ctor != "" || s.Value != "" || s.Type != "") && a < n-1 && src.Chance("split.todo", 2, 3) {
			// the definition in one file, `todo: true` in a later one
			b := a + 1 + src.Draw("split.svc2", n-1-a)
			s1 := s
			s1.Todo = false
			parts[a].Services = append(parts[a].Services, s1)
			parts[b].Services = append(parts[b].Services, Svc{Name: s.Name, Todo: true})
			continue
		}
		if !s.Todo && a < n-1 && src.Chance("split.attr", 1, 3) {
			b := a + 1 + src.Draw("split.svc2", n-1-a)
			s1, s2 := s, Svc{Name: s.Name}
			s1.Fields, s1.Tags, s1.Calls = nil, nil, nil
			for _, f := range s.Fields {
				if src.Bool("split.field") {
					s1.Fields = append(s1.Fields, f)
				} else {
					s2.Fields = append(s2.Fields, f)
				}
			}
			for _, t := range s.Tags {
				if src.Bool("split.tag") {
					s1.Tags = append(s1.Tags, t)
				} else {
					s2.Tags = append(s2.Tags, t)
				}
			}
			k := src.Draw("split.calls", len(s.Calls)+1)
			s1.Calls, s2.Calls = s.Calls[:k], s.Calls[k:]
			parts[a].Services = append(parts[a].Services, s1)
			if len(s2.Fields)+len(s2.Tags)+len(s2.Calls) > 0 {
				parts[b].Services = append(parts[b].Services, s2)
			}
			continue
		}
		parts[a].Services = append(parts[a].Services, s)
	}
	di := 0
	for _, d := range c.Decorators {
		di = di + src.Draw("split.dec", n-di)
		parts[di].Decorators = append(parts[di].Decorators, d)
	}
	return parts
}

// AddFakeWorld adds imports, aliases (some of which are string prefixes of one another and of
// referenced packages) and symbols outside the fixture universe. The result still has to be
// accepted by `build` (which does not type-check), but cannot be compiled.
func AddFakeWorld(src *choice.Src, c *Cfg, dotPkg bool) {
	aliases := []KV{{"a", "example.com/a"}, {"ab", "example.com/ab/v2"}, {"abc", "example.com/x/abc"},
		{"pkg", "my/pkg"}, {"pkg.sub", "other/sub"}, {"http", "net/http"}, {"h", "example.com/h"}, {"fxx", "example.com/fxx"},
		// targets that themselves begin with an alias (their own, or another one: expansion must not be repeated)
		{"log", "log/slog"}, {"os", "os/exec"}, {"p", "q/x"}, {"q", "p/y"}, {"fmt", "fmt/v2"}, {"ver", "v2"}, {"x", "v3"}}
	n := src.Range("fake.naliases", 1, 5)
	seen := map[string]bool{}
	for _, kv := range c.Meta.Imports {
		seen[kv.K] = true
	}
	for i := 0; i < n; i++ {
		kv := choice.Pick(src, "fake.alias", aliases)
		if !seen[kv.K] {
			seen[kv.K] = true
			c.Meta.Imports = append(c.Meta.Imports, kv)
		}
	}
	refs := []string{"abc", "ab", "a", "pkg", "pkg.sub", "http", "h", "fxx", `"example.com/quoted/p"`, "unaliased/long/path", "abcd", "fx", "log", "os", "p", "q", "p/sub", "log/more", "v2", "v3", `"v12"`, "x/v2", "ver"}
	used := map[string]bool{}
	for _, s := range c.Services {
		used[s.Name] = true
	}
	ns := src.Range("fake.nsvcs", 1, 3)
	for i := 0; i < ns; i++ {
		r := choice.Pick(src, "fake.ref", refs)
		s := Svc{Name: pickName(src, "fake.sname", []string{"ext", "ext.two", "Ext", "x-ext", "ext3"}, used)}
		switch src.Draw("fake.kind", 4) {
		case 0:
			s.Ctor = r + ".New"
			s.Args = []Arg{{Kind: "int", I: int64(i)}}
		case 1:
			s.Value = "&" + r + ".Thing{}"
		case 2:
			s.Value = r + ".Default"
			s.Type = "*" + r + ".T"
			s.Getter = "Get" + goIdent(s.Name) + "X"
		case 3:
			s.Ctor = r + ".Make"
			// several fields (and call arguments) that each bring a package not used before
			for _, fn := range []string{"Opt", "Alt", "Zed", "Beta"} {
				if src.Chance("fake.field", 2, 3) {
					s.Fields = append(s.Fields, Field{fn, Arg{Kind: "value", S: choice.Pick(src, "fake.ref2", refs) + "." + fn + "ion"}})
				}
			}
			if src.Bool("fake.call") {
				s.Calls = append(s.Calls, Call{Method: "Use", Args: []Arg{{Kind: "value", S: choice.Pick(src, "fake.ref3", refs) + ".X"}, {Kind: "value", S: choice.Pick(src, "fake.ref3", refs) + ".Y"}}})
			}
		}
		c.Services = append(c.Services, s)
	}
	if src.Chance("fake.fn", 1, 3) {
		c.Meta.Functions = append(c.Meta.Functions, KV{"extfn", choice.Pick(src, "fake.fnref", refs) + ".Lookup"})
		c.Params = append(c.Params, Param{Name: "ext.param", V: Arg{Kind: "pattern", Chunks: []Chunk{{Kind: "fn", S: "extfn", Def: "q"}}}})
	}
	if dotPkg && src.Chance("fake.dot", 1, 2) {
		s := Svc{Name: pickName(src, "fake.sname", []string{"dotsvc", "dot.svc"}, used)}
		if src.Bool("fake.dotk") {
			s.Value = `".".Cfg.Field`
		} else {
			s.Ctor = "NewLocal"
			s.Args = []Arg{{Kind: "value", S: `".".Cfg.Field`}}
		}
		c.Services = append(c.Services, s)
	}
}

func ctorSvcs(c *Cfg) []int {
	var idx []int
	for i, s := range c.Services {
		if !s.Todo && s.Ctor != "" {
			idx = append(idx, i)
		}
	}
	return idx
}

// InjectDefect makes cfg invalid in a known way. It returns the defect class ("" if none was
// applicable) and optionally a mutation of the YAML tree of the last file.
func InjectDefect(src *choice.Src, c *Cfg) (string, YMut) {
	cs := ctorSvcs(c)
	ensureSvc := func() int {
		if len(cs) == 0 {
			c.Services = append(c.Services, Svc{Name: "filler", Ctor: `"` + FxPath + `".NewNode`, Args: []Arg{{Kind: "str", S: "filler"}}})
			cs = ctorSvcs(c)
		}
		return cs[src.Draw("defect.svc", len(cs))]
	}
	k := src.Draw("defect.kind", 35)
	if k >= 31 {
		k = (k - 31) % 2 // dangling references meet the --ignore-missing-* flags: twice the weight
	}
	switch k {
	case 0:
		i := ensureSvc()
		c.Services[i].Args = append(c.Services[i].Args, Arg{Kind: "svc", S: "ghost" + strconv.Itoa(src.Draw("ghost", 3))})
		return "dangling-svc", nil
	case 1:
		c.Params = append(c.Params, Param{Name: "dangling" + strconv.Itoa(src.Draw("dn", 3)), V: Arg{Kind: "pattern", Chunks: []Chunk{{Kind: "ref", S: "nope" + strconv.Itoa(src.Draw("nope", 3))}}}})
		return "dangling-param", nil
	case 2:
		i := ensureSvc()
		j := ensureSvc()
		c.Services[i].Args = append(c.Services[i].Args, Arg{Kind: "svc", S: c.Services[j].Name})
		c.Services[j].Args = append(c.Services[j].Args, Arg{Kind: "svc", S: c.Services[i].Name})
		return "cycle-svc", nil
	case 3:
		c.Params = append(c.Params,
			Param{Name: "cyc.a", V: Arg{Kind: "pattern", Chunks: []Chunk{{Kind: "ref", S: "cyc.b"}}}},
			Param{Name: "cyc.b", V: Arg{Kind: "pattern", Chunks: []Chunk{{Kind: "lit", S: "x"}, {Kind: "ref", S: "cyc.a"}}}})
		return "cycle-param", nil
	case 4:
		i := ensureSvc()
		c.Services[i].Scope = "shared"
		c.Services = append(c.Services, Svc{Name: "ctxdep", Value: "&" + `"` + FxPath + `".Node{}`, Scope: "contextual"})
		c.Services[i].Args = append(c.Services[i].Args, Arg{Kind: "svc", S: "ctxdep"})
		return "scope", nil
	case 5:
		i := ensureSvc()
		c.Services[i].Tags = append(c.Services[i].Tags, Tag{Name: "dup"}, Tag{Name: "dup", HasPrio: true, Prio: 3})
		return "dup-tag", nil
	case 6:
		bad := choice.Pick(src, "badname", []string{"9bad", "a..b", "-x", "sp ace", "tr.", "ünï"})
		if src.Bool("badname.which") {
			c.Params = append(c.Params, Param{Name: bad, V: Arg{Kind: "int", I: 1}})
		} else {
			c.Services = append(c.Services, Svc{Name: bad, Value: "&" + `"` + FxPath + `".Node{}`})
		}
		return "bad-name", nil
	case 7:
		c.Meta.Imports = append(c.Meta.Imports, KV{"bad alias!", "ok/path"}, KV{"x1", "bad path!!"}, KV{"1a", "§"})
		if src.Bool("badimp.more") {
			c.Meta.Imports = append(c.Meta.Imports, KV{"-z", "\"unterminated"})
		}
		return "bad-imports", nil
	case 8:
		c.Meta.Functions = append(c.Meta.Functions, KV{"1fn", "ok.Fn"}, KV{"ok2", "not a func!"}, KV{"b@d", "x.Y"})
		return "bad-functions", nil
	case 9:
		c.Params = append(c.Params, Param{Name: "usesnofn" + strconv.Itoa(src.Draw("nofn", 2)), V: Arg{Kind: "raw", S: `%nofn(1)%`}})
		return "unknown-fn", nil
	case 10:
		c.Params = append(c.Params, Param{Name: "pct" + strconv.Itoa(src.Draw("pctn", 2)), V: Arg{Kind: "raw", S: choice.Pick(src, "pctv", []string{"50%", "%", "a%b%c%", "%not closed"})}})
		return "unbalanced-pct", nil
	case 11:
		i := ensureSvc()
		c.Services[i].Getter = ""
		t := true
		c.Services[i].MustGetter = &t
		return "must-without-getter", nil
	case 12:
		i := ensureSvc()
		c.Services[i].Value = `&"` + FxPath + `".Node{}`
		return "ctor-and-value", nil
	case 13:
		c.Services = append(c.Services, Svc{Name: "argsnoctor", Value: `&"` + FxPath + `".Node{}`, Args: []Arg{{Kind: "int", I: 1}}})
		return "args-without-ctor", nil
	case 14:
		c.Services = append(c.Services, Svc{Name: "nocreation", Tags: []Tag{{Name: "t0"}}})
		return "no-creation", nil
	case 15:
		i := ensureSvc()
		c.Services[i].Scope = choice.Pick(src, "badscope", []string{"global", "Shared", "non-shared", ""})
		if c.Services[i].Scope == "" {
			c.Services[i].Scope = "singleton"
		}
		return "bad-scope", nil
	case 16:
		i := ensureSvc()
		c.Services[i].Getter = choice.Pick(src, "badgetter", []string{"MustFoo", "GetXInContext", "Get", "GetParam", "9x", "Root"})
		return "bad-getter", nil
	case 17:
		v := choice.Pick(src, "badver", []string{"v1.0.0", "1", "x.y.z", "1.0.0.0"})
		c.Version = &v
		return "bad-version", nil
	case 18:
		i := ensureSvc()
		c.Services[i].Ctor = choice.Pick(src, "badctor", []string{"not a ctor", "pkg.", ".New", "a/b c.New", "New()"})
		return "bad-ctor", nil
	case 19, 20:
		return "kind-confusion", KindConfusion
	case 21:
		return "dup-key", DupKey
	case 22, 23:
		return cycleWeb(src, c), nil
	case 24:
		return paramCycleWeb(src, c), nil
	case 25, 26:
		return oddScalar(src, c, ensureSvc()), nil
	case 27, 28:
		return typoRefs(src, c, ensureSvc()), nil
	case 29, 30:
		// names that pass the grammar of identifiers but are Go keywords: validation and compilation succeed,
		// the rendered source is not Go (the failure comes from the formatter, the last step before the write)
		kw := choice.Pick(src, "kw", []string{"func", "type", "go", "select", "range", "chan"})
		switch src.Draw("kw.where", 3) {
		case 0:
			c.Meta.Pkg = &kw
		case 1:
			c.Meta.CType = &kw
		case 2:
			c.Meta.CCtor = &kw
		}
		return "keyword-name", nil
	}
	return "", nil
}

// typoRefs: references to names that do not exist but are one edit away from two or three that do
// (cacheA / cacheB / cacheC and a reference to "cache"): whatever a diagnostic says about near misses,
// it says it reproducibly. Several such references at once, to services and to parameters.
func typoRefs(src *choice.Src, c *Cfg, i int) string {
	fx := `"` + FxPath + `"`
	base := choice.Pick(src, "typo.base", []string{"cache", "mailer-", "repo.", "Store"})
	n := src.Range("typo.n", 2, 3)
	for k := 0; k < n; k++ {
		name := base + string(rune('A'+k))
		if c.Svc(name) == nil {
			c.Services = append(c.Services, Svc{Name: name, Ctor: fx + ".NewNode", Args: []Arg{{Kind: "str", S: name}}})
		}
	}
	pbase := choice.Pick(src, "typo.pbase", []string{"db.host", "port", "app_"})
	for k := 0; k < n; k++ {
		name := pbase + string(rune('1'+k))
		if c.Param(name) == nil {
			c.Params = append(c.Params, Param{Name: name, V: Arg{Kind: "int", I: int64(k)}})
		}
	}
	s := &c.Services[i]
	if src.Bool("typo.svc") {
		s.Args = append(s.Args, Arg{Kind: "svc", S: base + choice.Pick(src, "typo.svcsuffix", []string{"", "0", "Z"})})
	}
	if src.Bool("typo.param") || len(s.Args) < 2 {
		s.Args = append(s.Args, Arg{Kind: "pattern", Chunks: []Chunk{{Kind: "ref", S: pbase + choice.Pick(src, "typo.psuffix", []string{"", "0", "9"})}}})
	}
	if src.Bool("typo.dec") {
		c.Decorators = append(c.Decorators, Dec{Tag: "typo.tag", Fn: fx + ".Decorate", Args: []Arg{{Kind: "svc", S: base + "0"}}})
	}
	if src.Bool("typo.pp") {
		c.Params = append(c.Params, Param{Name: "typo.dsn", V: Arg{Kind: "pattern", Chunks: []Chunk{{Kind: "ref", S: pbase}, {Kind: "lit", S: ":3306"}}}})
	}
	return "typo-refs"
}

// oddScalars are plain scalars that a YAML 1.1/1.2 decoder turns into something other than a string, an
// int, a float or a bool (timestamps, binary, sets, merge keys ...) or into values at the edge of those.
var oddScalars = []string{"2024-01-01", "2001-12-14t21:59:43.10-05:00", "2001-12-14 21:59:43.10 -5", "!!timestamp 2024-02-30", "!!timestamp \"2024-01-01\"",
	"!!binary aGVsbG8=", "0o14", "0b1010_1010", "1_000_000", "0x_0A", "190:20:30", "yes", "Off", ".NaN", "-.inf", "!!float 1e400", "18446744073709551616",
	"-9223372036854775809", "!!set {a, b}", "!!omap [a: 1]", "!!str \"\"", "!!null x", "{<<: {a: 1}}", "[<<, 1]", "!!map []", "!!seq {}", "1e-400", "0.1e+3_0", "+12", "\"\\x00\"", "'@'", "'%'", "'!tagged'", "'!value'", "\"\\uD800\""}

// oddScalar puts one of them where an argument, a field value, a call argument, a decorator argument, a
// parameter or a tag priority is expected. Most are rejected, some are accepted: either way with a verdict.
func oddScalar(src *choice.Src, c *Cfg, i int) string {
	a := Arg{Kind: "yaml", S: choice.Pick(src, "odd.scalar", oddScalars)}
	switch src.Draw("odd.where", 6) {
	case 0:
		c.Services[i].Args = append(c.Services[i].Args, a)
	case 1:
		c.Services[i].Fields = append(c.Services[i].Fields, Field{Name: "Odd", V: a})
	case 2:
		c.Services[i].Calls = append(c.Services[i].Calls, Call{Method: "Use", Args: []Arg{a}})
	case 3:
		c.Decorators = append(c.Decorators, Dec{Tag: "odd.tag", Fn: `"` + FxPath + `".Decorate`, Args: []Arg{a}})
	case 4:
		c.Params = append(c.Params, Param{Name: "odd.param", V: a})
	case 5:
		c.Services[i].Args = append(c.Services[i].Args, a, Arg{Kind: "yaml", S: choice.Pick(src, "odd.scalar2", oddScalars)})
	}
	return "odd-scalar"
}

// cycleWeb: several circular dependencies at once that meet in one service, which mentions its
// dependencies in a drawn order and some of them more than once (argument + call + field), through
// direct references and through a tag. The names are drawn so that they sort on both sides of the
// hub. Everything that enumerates or reports the cycles has to do so reproducibly.
func cycleWeb(src *choice.Src, c *Cfg) string {
	fx := `"` + FxPath + `"`
	used := map[string]bool{}
	for _, s := range c.Services {
		used[s.Name] = true
	}
	hub := pickName(src, "web.hub", []string{"hub", "mid.point", "kernel", "Mux"}, used)
	n := src.Range("web.nspokes", 2, 4)
	var spokes []string
	for i := 0; i < n; i++ {
		spokes = append(spokes, pickName(src, "web.spoke", []string{"alpha", "spokeA", "spokeB", "zeta", "node.x", "Zulu", "beta2", "omega", "a0"}, used))
	}
	h := Svc{Name: hub, Ctor: fx + ".NewNode", Args: []Arg{{Kind: "str", S: hub}}}
	tagged := src.Chance("web.tag", 1, 3)
	for i, sp := range spokes {
		if tagged && i == 0 {
			h.Args = append(h.Args, Arg{Kind: "tagged", S: "web.tag"})
			continue
		}
		ref := Arg{Kind: "svc", S: sp}
		times := 1 + src.Draw("web.times", 3)
		for k := 0; k < times; k++ {
			switch src.Draw("web.where", 3) {
			case 0:
				h.Args = append(h.Args, ref)
			case 1:
				h.Calls = append(h.Calls, Call{Method: "Use", Args: []Arg{ref}})
			case 2:
				h.Fields = append(h.Fields, Field{Name: []string{"Dep", "Other", "Third"}[k], V: ref})
			}
		}
	}
	// the hub mentions its dependencies in a drawn order
	for i := len(h.Args) - 1; i > 1; i-- {
		j := 1 + src.Draw("web.shuffle", i)
		h.Args[i], h.Args[j] = h.Args[j], h.Args[i]
	}
	c.Services = append(c.Services, h)
	for i, sp := range spokes {
		s := Svc{Name: sp, Ctor: fx + ".NewNode", Args: []Arg{{Kind: "str", S: sp}}}
		if tagged && i == 0 {
			s.Tags = append(s.Tags, Tag{Name: "web.tag"})
		}
		back := Arg{Kind: "svc", S: hub}
		if i > 0 && src.Chance("web.chain", 1, 4) {
			back = Arg{Kind: "svc", S: spokes[i-1]} // a longer cycle through the previous spoke
		}
		switch src.Draw("web.back", 3) {
		case 0:
			s.Args = append(s.Args, back)
		case 1:
			s.Calls = append(s.Calls, Call{Method: "Use", Args: []Arg{back}})
		case 2:
			s.Fields = append(s.Fields, Field{Name: "Dep", V: back})
		}
		c.Services = append(c.Services, s)
	}
	return "cycle-web"
}

// paramCycleWeb: two or three independent circular dependencies among parameters, one parameter
// mentioning the same parameter twice.
func paramCycleWeb(src *choice.Src, c *Cfg) string {
	ref := func(n string) Chunk { return Chunk{Kind: "ref", S: n} }
	n := src.Range("pweb.n", 2, 3)
	names := [][2]string{{"web.a", "web.z"}, {"Web.m", "web.b"}, {"w0", "x.web"}}
	for i := 0; i < n; i++ {
		a, b := names[i][0], names[i][1]
		if c.Param(a) != nil || c.Param(b) != nil {
			continue
		}
		pa := Param{Name: a, V: Arg{Kind: "pattern", Chunks: []Chunk{ref(b), {Kind: "lit", S: "-"}, ref(b)}}}
		pb := Param{Name: b, V: Arg{Kind: "pattern", Chunks: []Chunk{{Kind: "lit", S: "x"}, ref(a)}}}
		if src.Bool("pweb.order") {
			c.Params = append(c.Params, pa, pb)
		} else {
			c.Params = append(c.Params, pb, pa)
		}
	}
	return "cycle-param-web"
}

func collect(y *Y, out *[]*Y) {
	*out = append(*out, y)
	for _, v := range y.Vals {
		collect(v, out)
	}
	for _, v := range y.Items {
		collect(v, out)
	}
}

// KindConfusion replaces one node of the tree (any schema position) by a node of another
// kind: scalar / sequence / mapping / null / anchor+alias / explicit tag.
func KindConfusion(src *choice.Src, root *Y) {
	var nodes []*Y
	collect(root, &nodes)
	if len(nodes) <= 1 {
		*root = *Seq(Scalar("1"))
		return
	}
	n := nodes[1+src.Draw("kc.node", len(nodes)-1)]
	repl := []func() *Y{
		func() *Y { return Scalar("42") },
		func() *Y { return Str("text") },
		func() *Y { return Scalar("~") },
		func() *Y { return Scalar("true") },
		func() *Y { return Scalar("1.5") },
		func() *Y { return Seq() },
		func() *Y { return Seq(Scalar("1"), Str("two"), Seq(Scalar("3"))) },
		func() *Y { return Map() },
		func() *Y { return Map().Set("k", Scalar("1")).Set("name", Scalar("5")) },
		func() *Y { return Map().Set("name", Str("t")).Set("priority", Str("high")) },
		func() *Y { return Seq(Scalar("&anc {a: 1}"), Scalar("*anc")) },
		func() *Y { return Scalar(`!!binary "aGVsbG8="`) },
		func() *Y { return Scalar(`!!float "abc"`) },
		func() *Y { return Scalar(`!custom {x: 1}`) },
		func() *Y { return Scalar(`!!int "12"`) },
		func() *Y { return Scalar(".inf") },
		func() *Y { return Scalar("-.nan") },
		func() *Y { return Scalar("0x7fffffffffffffffff") },
		func() *Y { return Seq(Scalar("5"), Seq(), Scalar("true")) },
		func() *Y { return Seq(Str("M"), Str("notalist")) },
		func() *Y { return Seq(Str("M"), Seq(), Str("notabool")) },
		func() *Y { return Seq(Str("M"), Seq(), Scalar("true"), Scalar("4")) },
		func() *Y { return Seq(Map().Set("deep", Seq(Map().Set("er", Seq(Map()))))) },
	}
	*n = *repl[src.Draw("kc.repl", len(repl))]()
}

// DupKey duplicates one key of one mapping.
func DupKey(src *choice.Src, root *Y) {
	var nodes, maps []*Y
	collect(root, &nodes)
	for _, n := range nodes {
		if n.Kind == "map" && len(n.Keys) > 0 {
			maps = append(maps, n)
		}
	}
	if len(maps) == 0 {
		return
	}
	m := maps[src.Draw("dk.map", len(maps))]
	i := src.Draw("dk.key", len(m.Keys))
	m.Set(m.Keys[i], m.Vals[i])
}
