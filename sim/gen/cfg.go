// Package gen holds the configuration model shared by both engines, its YAML rendering with a
// controllable key order and file split, and the seeded generators.
package gen

import (
	"fmt"
	"sort"
	"strconv"
	"strings"
)

const FxPath = "verifprobe/fx"

// Chunk is one piece of a parameter pattern.
type Chunk struct {
	Kind   string `json:"k"` // lit ref pct env envInt todo fn
	S      string `json:"s,omitempty"`
	HasDef bool   `json:"hd,omitempty"`
	Def    string `json:"d,omitempty"`
	DefInt int    `json:"di,omitempty"`
	Extra  string `json:"x,omitempty"` // todo: a second argument
}

// Arg is a YAML scalar used as parameter value, argument or field value.
type Arg struct {
	Kind   string  `json:"k"` // int float bool null str svc tagged value pattern gontainer raw
	S      string  `json:"s,omitempty"`
	I      int64   `json:"i,omitempty"`
	F      string  `json:"f,omitempty"` // float literal as YAML text
	B      bool    `json:"b,omitempty"`
	Chunks []Chunk `json:"c,omitempty"`
}

func (c Chunk) String() string {
	// a raw % would end the chunk: inside a function argument it is written as a Go escape
	q := func(s string) string { return strings.ReplaceAll(strconv.Quote(s), "%", `\x25`) }
	switch c.Kind {
	case "lit":
		return c.S
	case "ref":
		return "%" + c.S + "%"
	case "pct":
		return "%%"
	case "env":
		if c.HasDef {
			return "%env(" + q(c.S) + ", " + q(c.Def) + ")%"
		}
		return "%env(" + q(c.S) + ")%"
	case "envInt":
		if c.HasDef {
			return "%envInt(" + q(c.S) + ", " + strconv.Itoa(c.DefInt) + ")%"
		}
		return "%envInt(" + q(c.S) + ")%"
	case "todo":
		if c.HasDef && c.Extra != "" {
			// the documented function takes the first argument as the message; further ones are ignored
			return "%todo(" + q(c.Def) + ", " + q(c.Extra) + ")%"
		}
		if c.HasDef {
			return "%todo(" + q(c.Def) + ")%"
		}
		return "%todo()%"
	case "fn":
		return "%" + c.S + "(" + q(c.Def) + ")%"
	}
	return c.S
}

// Text is the string the YAML scalar holds (for string-typed kinds).
func (a Arg) Text() string {
	switch a.Kind {
	case "str", "raw":
		return a.S
	case "svc":
		return "@" + a.S
	case "tagged":
		return "!tagged " + a.S
	case "value":
		return "!value " + a.S
	case "gontainer":
		return "$gontainer"
	case "pattern":
		var b strings.Builder
		for _, c := range a.Chunks {
			b.WriteString(c.String())
		}
		return b.String()
	}
	return ""
}

func (a Arg) Y() *Y {
	switch a.Kind {
	case "int":
		return Scalar(strconv.FormatInt(a.I, 10))
	case "float":
		return Scalar(a.F)
	case "bool":
		return Scalar(strconv.FormatBool(a.B))
	case "null":
		return Scalar("~")
	case "yaml":
		return Scalar(a.S) // verbatim YAML: whatever type the decoder makes of it
	}
	return Str(a.Text())
}

type Param struct {
	Name string `json:"n"`
	V    Arg    `json:"v"`
}

type Field struct {
	Name string `json:"n"`
	V    Arg    `json:"v"`
}

type Call struct {
	Method string `json:"m"`
	Args   []Arg  `json:"a,omitempty"`
	Wither bool   `json:"w,omitempty"`
	Short  bool   `json:"s,omitempty"` // emit [method] / [method, args] without the third element
}

type Tag struct {
	Name    string `json:"n"`
	Prio    int    `json:"p,omitempty"`
	HasPrio bool   `json:"hp,omitempty"`
}

type Svc struct {
	Name       string  `json:"n"`
	Todo       bool    `json:"todo,omitempty"`
	Ctor       string  `json:"ctor,omitempty"`
	Value      string  `json:"value,omitempty"`
	Type       string  `json:"type,omitempty"`
	Args       []Arg   `json:"args,omitempty"`
	Fields     []Field `json:"fields,omitempty"`
	Calls      []Call  `json:"calls,omitempty"`
	Tags       []Tag   `json:"tags,omitempty"`
	Scope      string  `json:"scope,omitempty"`
	Getter     string  `json:"getter,omitempty"`
	MustGetter *bool   `json:"must,omitempty"`
}

type Dec struct {
	Tag  string `json:"t"`
	Fn   string `json:"f"`
	Args []Arg  `json:"a,omitempty"`
}

type KV struct {
	K string `json:"k"`
	V string `json:"v"`
}

type Meta struct {
	Pkg               *string `json:"pkg,omitempty"`
	CType             *string `json:"ctype,omitempty"`
	CCtor             *string `json:"cctor,omitempty"`
	DefaultMustGetter *bool   `json:"dmg,omitempty"`
	Imports           []KV    `json:"imports,omitempty"`
	Functions         []KV    `json:"functions,omitempty"`
}

type Cfg struct {
	Version    *string `json:"version,omitempty"`
	Meta       Meta    `json:"meta"`
	Params     []Param `json:"params,omitempty"`
	Services   []Svc   `json:"services,omitempty"`
	Decorators []Dec   `json:"decorators,omitempty"`
}

func (c *Cfg) Svc(name string) *Svc {
	for i := range c.Services {
		if c.Services[i].Name == name {
			return &c.Services[i]
		}
	}
	return nil
}

func (c *Cfg) Param(name string) *Param {
	for i := range c.Params {
		if c.Params[i].Name == name {
			return &c.Params[i]
		}
	}
	return nil
}

// ---------------------------------------------------------------------------------------
// YAML tree (flow style, which is also how the harness controls key order exactly)

type Y struct {
	Kind  string // map seq scalar
	Keys  []string
	Vals  []*Y
	Items []*Y
	Text  string // rendered scalar
}

func Scalar(t string) *Y { return &Y{Kind: "scalar", Text: t} }
func Str(s string) *Y    { return &Y{Kind: "scalar", Text: quote(s)} }
func Map() *Y            { return &Y{Kind: "map"} }
func Seq(items ...*Y) *Y { return &Y{Kind: "seq", Items: items} }

func (y *Y) Set(k string, v *Y) *Y {
	y.Keys = append(y.Keys, k)
	y.Vals = append(y.Vals, v)
	return y
}

func quote(s string) string {
	var b strings.Builder
	b.WriteByte('"')
	for _, r := range s {
		switch {
		case r == '"':
			b.WriteString(`\"`)
		case r == '\\':
			b.WriteString(`\\`)
		case r == '\n':
			b.WriteString(`\n`)
		case r == '\t':
			b.WriteString(`\t`)
		case r == '\r':
			b.WriteString(`\r`)
		case r < 0x20 || r == 0x7f:
			fmt.Fprintf(&b, `\x%02x`, r)
		default:
			b.WriteRune(r)
		}
	}
	b.WriteByte('"')
	return b.String()
}

// Render prints the tree. perm, if not nil, is asked for a permutation of each mapping's keys
// (called once per mapping in a deterministic traversal order).
func (y *Y) Render(perm func(n int) []int) string {
	var b strings.Builder
	y.render(&b, 0, perm)
	b.WriteByte('\n')
	return b.String()
}

func (y *Y) render(b *strings.Builder, depth int, perm func(n int) []int) {
	ind := strings.Repeat("  ", depth+1)
	switch y.Kind {
	case "scalar":
		b.WriteString(y.Text)
	case "seq":
		if len(y.Items) == 0 {
			b.WriteString("[]")
			return
		}
		b.WriteString("[")
		for i, it := range y.Items {
			if i > 0 {
				b.WriteString(", ")
			}
			it.render(b, depth+1, perm)
		}
		b.WriteString("]")
	case "map":
		if len(y.Keys) == 0 {
			b.WriteString("{}")
			return
		}
		order := make([]int, len(y.Keys))
		for i := range order {
			order[i] = i
		}
		if perm != nil && len(order) > 1 {
			order = perm(len(order))
		}
		b.WriteString("{\n")
		for n, i := range order {
			b.WriteString(ind)
			b.WriteString(quote(y.Keys[i]))
			b.WriteString(": ")
			y.Vals[i].render(b, depth+1, perm)
			if n < len(order)-1 {
				b.WriteString(",")
			}
			b.WriteString("\n")
		}
		b.WriteString(strings.Repeat("  ", depth))
		b.WriteString("}")
	}
}

func args(as []Arg) *Y {
	s := Seq()
	for _, a := range as {
		s.Items = append(s.Items, a.Y())
	}
	return s
}

func (s Svc) Y() *Y {
	m := Map()
	if s.Todo {
		m.Set("todo", Scalar("true"))
	}
	if s.Ctor != "" {
		m.Set("constructor", Str(s.Ctor))
	}
	if s.Value != "" {
		m.Set("value", Str(s.Value))
	}
	if s.Type != "" {
		m.Set("type", Str(s.Type))
	}
	if len(s.Args) > 0 {
		m.Set("arguments", args(s.Args))
	}
	if len(s.Fields) > 0 {
		f := Map()
		for _, fl := range s.Fields {
			f.Set(fl.Name, fl.V.Y())
		}
		m.Set("fields", f)
	}
	if len(s.Calls) > 0 {
		cs := Seq()
		for _, c := range s.Calls {
			it := Seq(Str(c.Method))
			if !(c.Short && len(c.Args) == 0 && !c.Wither) {
				it.Items = append(it.Items, args(c.Args))
			}
			if c.Wither || !c.Short {
				it.Items = append(it.Items, Scalar(strconv.FormatBool(c.Wither)))
			}
			cs.Items = append(cs.Items, it)
		}
		m.Set("calls", cs)
	}
	if len(s.Tags) > 0 {
		ts := Seq()
		for _, t := range s.Tags {
			if t.HasPrio {
				ts.Items = append(ts.Items, Map().Set("name", Str(t.Name)).Set("priority", Scalar(strconv.Itoa(t.Prio))))
			} else {
				ts.Items = append(ts.Items, Str(t.Name))
			}
		}
		m.Set("tags", ts)
	}
	if s.Scope != "" {
		m.Set("scope", Str(s.Scope))
	}
	if s.Getter != "" {
		m.Set("getter", Str(s.Getter))
	}
	if s.MustGetter != nil {
		m.Set("must_getter", Scalar(strconv.FormatBool(*s.MustGetter)))
	}
	return m
}

func (c Cfg) Y() *Y {
	root := Map()
	if c.Version != nil {
		root.Set("version", Str(*c.Version))
	}
	meta := Map()
	if c.Meta.Pkg != nil {
		meta.Set("pkg", Str(*c.Meta.Pkg))
	}
	if c.Meta.CType != nil {
		meta.Set("container_type", Str(*c.Meta.CType))
	}
	if c.Meta.CCtor != nil {
		meta.Set("container_constructor", Str(*c.Meta.CCtor))
	}
	if c.Meta.DefaultMustGetter != nil {
		meta.Set("default_must_getter", Scalar(strconv.FormatBool(*c.Meta.DefaultMustGetter)))
	}
	if len(c.Meta.Imports) > 0 {
		im := Map()
		for _, kv := range c.Meta.Imports {
			im.Set(kv.K, Str(kv.V))
		}
		meta.Set("imports", im)
	}
	if len(c.Meta.Functions) > 0 {
		fm := Map()
		for _, kv := range c.Meta.Functions {
			fm.Set(kv.K, Str(kv.V))
		}
		meta.Set("functions", fm)
	}
	if len(meta.Keys) > 0 {
		root.Set("meta", meta)
	}
	if len(c.Params) > 0 {
		pm := Map()
		for _, p := range c.Params {
			pm.Set(p.Name, p.V.Y())
		}
		root.Set("parameters", pm)
	}
	if len(c.Services) > 0 {
		sm := Map()
		for _, s := range c.Services {
			sm.Set(s.Name, s.Y())
		}
		root.Set("services", sm)
	}
	if len(c.Decorators) > 0 {
		ds := Seq()
		for _, d := range c.Decorators {
			m := Map().Set("tag", Str(d.Tag)).Set("decorator", Str(d.Fn))
			if len(d.Args) > 0 {
				m.Set("arguments", args(d.Args))
			}
			ds.Items = append(ds.Items, m)
		}
		root.Set("decorators", ds)
	}
	return root
}

// ---------------------------------------------------------------------------------------
// dependency view used by the reference models

// Deps returns the direct service / tag / param references of a list of args.
func ArgRefs(as []Arg) (svcs, tags, params []string) {
	for _, a := range as {
		switch a.Kind {
		case "svc":
			svcs = append(svcs, a.S)
		case "tagged":
			tags = append(tags, a.S)
		case "pattern":
			for _, c := range a.Chunks {
				if c.Kind == "ref" {
					params = append(params, c.S)
				}
			}
		}
	}
	return
}

func (s Svc) AllArgs() []Arg {
	var r []Arg
	r = append(r, s.Args...)
	for _, c := range s.Calls {
		r = append(r, c.Args...)
	}
	for _, f := range s.Fields {
		r = append(r, f.V)
	}
	return r
}

func (s Svc) HasTag(t string) bool {
	if s.Todo {
		return false // see Tagged
	}
	for _, x := range s.Tags {
		if x.Name == t {
			return true
		}
	}
	return false
}

// Tagged returns service names tagged by t ordered by priority desc, then name asc.
func (c *Cfg) Tagged(t string) []string {
	type e struct {
		n string
		p int
	}
	var es []e
	for _, s := range c.Services {
		if s.Todo {
			// a placeholder is a name (and a declared scope): its sketched constructor, arguments, fields,
			// calls and tags are not part of the container until the service is defined or overridden
			continue
		}
		for _, x := range s.Tags {
			if x.Name == t {
				es = append(es, e{s.Name, x.Prio})
			}
		}
	}
	sort.SliceStable(es, func(i, j int) bool {
		if es[i].p == es[j].p {
			return es[i].n < es[j].n
		}
		return es[i].p > es[j].p
	})
	r := make([]string, len(es))
	for i, x := range es {
		r[i] = x.n
	}
	return r
}
