package gen

import (
	"fmt"
	"strconv"
	"strings"

	"verifsim/choice"
)

// Opts steers generation. Runnable restricts the configuration to the fixture universe fx
// with type-compatible arguments, so that the generated container can be compiled and run.
type Opts struct {
	Runnable     bool
	MaxParams    int
	MaxSvcs      int
	MaxDecs      int
	NoTodo       bool // no todo params/services
	NoEnv        bool
	NoFn         bool
	NoScopes     bool // every service has unset scope
	LegalOnly    bool // never generate a shared service depending on a contextual one
	OnlyPtr      bool // only pointer-typed services (identity is observable)
	FakeWorld    bool // (not Runnable) add imports/aliases/symbols outside fx, prefix-related aliases
	SimpleVals   bool // params restricted to int/str (exact value model)
	Plain        bool // services: constructor arguments only (no fields/calls/tags/decorators/!value/!tagged)
	TodoScoped   bool // todo services may declare a scope too
	NoTodoParams bool // no todo parameters (todo services still allowed unless NoTodo)
}

// the pools overlap on purpose (a parameter, a tag and a service may share a name; names may
// differ only in case): the three namespaces are independent
var paramNames = []string{"alpha", "Alpha", "db.host", "db.port", "my-param", "x_1", "zeta", "appPort", "q", "db", "logger"}
var svcNames = []string{"svcA", "svcB", "db", "db.conn", "http-client", "logger", "Logger", "m_1", "zz", "a", "repo.user", "cache", "n9", "t0"}
var tagNames = []string{"t0", "tag.one", "db"}
var envKeys = []string{"VSIM_E0", "VSIM_E1", "VSIM_E2"}

func pickName(src *choice.Src, label string, pool []string, used map[string]bool) string {
	for try := 0; try < 8; try++ {
		n := choice.Pick(src, label, pool)
		if !used[n] {
			used[n] = true
			return n
		}
	}
	for i := 0; ; i++ {
		n := pool[0] + strconv.Itoa(i)
		if !used[n] {
			used[n] = true
			return n
		}
	}
}

func sp(s string) *string { return &s }
func bp(b bool) *bool     { return &b }

type genState struct {
	src    *choice.Src
	o      Opts
	cfg    *Cfg
	fxRef  string // how fx is referred to: alias `fx` or quoted path
	fnName string // yaml name of the registered parameter function ("" if none)
}

func (g *genState) fx(sym string) string { return g.fxRef + "." + sym }

// GenCfg draws a configuration that the tool must accept (valid by construction), unless
// scopes make it illegal and LegalOnly is unset.
func GenCfg(src *choice.Src, o Opts) *Cfg {
	g := &genState{src: src, o: o, cfg: &Cfg{}}
	c := g.cfg
	// ---- meta
	if src.Chance("meta.pkg", 1, 3) {
		c.Meta.Pkg = sp(choice.Pick(src, "meta.pkgname", []string{"main", "gen", "di"}))
	}
	if o.Runnable {
		c.Meta.Pkg = nil // the probe assigns the package
	}
	if src.Chance("meta.ctype", 1, 4) {
		c.Meta.CType = sp(choice.Pick(src, "meta.ctypename", []string{"Gontainer", "MyContainer", "app"}))
	}
	if src.Chance("meta.cctor", 1, 4) {
		c.Meta.CCtor = sp(choice.Pick(src, "meta.cctorname", []string{"NewGontainer", "New", "build"}))
	}
	if src.Chance("meta.dmg", 1, 4) {
		c.Meta.DefaultMustGetter = bp(src.Bool("meta.dmgv"))
	}
	if src.Bool("meta.alias") {
		c.Meta.Imports = append(c.Meta.Imports, KV{"fx", FxPath})
		g.fxRef = "fx"
	} else {
		g.fxRef = `"` + FxPath + `"`
	}
	if !o.NoFn && src.Chance("meta.fn", 1, 2) {
		g.fnName = choice.Pick(src, "meta.fnname", []string{"fn", "lookup", "calc"})
		c.Meta.Functions = append(c.Meta.Functions, KV{g.fnName, g.fx("Fn")})
	}
	if src.Chance("version", 1, 6) {
		c.Version = sp(choice.Pick(src, "versionv", []string{"0.4.0", "0.4.7", "1.0.0", "0.3.0", "1.2.9", "1.3.0", "2.1.0", "1", "0", "0.4"}))
	}

	// ---- parameters (DAG by creation order; names shuffled against that order)
	used := map[string]bool{}
	np := src.Range("nparams", 0, o.MaxParams)
	for i := 0; i < np; i++ {
		name := pickName(src, "pname", paramNames, used)
		c.Params = append(c.Params, Param{Name: name, V: g.paramValue(i, name)})
	}

	// ---- services
	usedS := map[string]bool{}
	ns := src.Range("nsvcs", 0, o.MaxSvcs)
	for i := 0; i < ns; i++ {
		name := pickName(src, "sname", svcNames, usedS)
		c.Services = append(c.Services, g.service(name, i))
	}

	// ---- decorators
	nd := 0
	if len(c.Services) > 0 {
		nd = src.Range("ndecs", 0, o.MaxDecs)
	}
	for i := 0; i < nd; i++ {
		d := Dec{Tag: choice.Pick(src, "dtag", tagNames), Fn: g.fx(choice.Pick(src, "dfn", []string{"Decorate", "DecorateE"}))}
		if !o.Plain && src.Chance("dstar", 1, 8) {
			d.Tag = "*" // legal in the grammar, carried by no service: such a decorator is never applied
		}
		na := src.Range("dnargs", 0, 2)
		for j := 0; j < na; j++ {
			d.Args = append(d.Args, g.depArg(len(c.Services), true))
		}
		c.Decorators = append(c.Decorators, d)
	}
	if !o.Plain && !o.NoScopes && len(c.Services) > 0 && src.Chance("nscollide", 1, 3) {
		g.namespaceCollision()
	}
	BreakCycles(c)
	if o.LegalOnly {
		MakeScopeLegal(c)
	}
	return c
}

// namespaceCollision: parameters, tags and services live in three independent namespaces. Give a
// shared service a parameter reference, a tag and a tagged-injection whose *names* equal the name of
// an unrelated contextual service: nothing about scopes may follow from that.
func (g *genState) namespaceCollision() {
	c, src := g.cfg, g.src
	ctxName := "ctxonly"
	for _, s := range c.Services {
		if s.Scope == "contextual" {
			ctxName = s.Name
		}
	}
	if c.Svc(ctxName) == nil {
		c.Services = append(c.Services, Svc{Name: ctxName, Value: "&" + g.fx("Node{}"), Fields: []Field{{"Name", Arg{Kind: "str", S: ctxName}}}, Scope: "contextual"})
	}
	if c.Param(ctxName) == nil {
		c.Params = append(c.Params, Param{Name: ctxName, V: Arg{Kind: "int", I: 7}})
	}
	sh := Svc{Name: "sharedUser", Ctor: g.fx("NewNode"), Args: []Arg{{Kind: "str", S: "sharedUser"}}, Scope: "shared"}
	if c.Svc(sh.Name) != nil {
		return
	}
	switch src.Draw("nscollide.kind", 4) {
	case 3:
		// the parameter first, then the service of the same name: this one IS a dependency on a contextual service
		sh.Args = append(sh.Args, Arg{Kind: "pattern", Chunks: []Chunk{{Kind: "ref", S: ctxName}}}, Arg{Kind: "svc", S: ctxName})
	case 0:
		sh.Args = append(sh.Args, Arg{Kind: "pattern", Chunks: []Chunk{{Kind: "ref", S: ctxName}}})
	case 1:
		sh.Tags = append(sh.Tags, Tag{Name: ctxName})
	case 2:
		sh.Args = append(sh.Args, Arg{Kind: "tagged", S: ctxName})
	}
	c.Services = append(c.Services, sh)
}

func (g *genState) litArg() Arg {
	src := g.src
	if g.o.SimpleVals {
		if src.Bool("litsimple") {
			return Arg{Kind: "int", I: int64(src.Range("int", 0, 99))}
		}
		return Arg{Kind: "str", S: choice.Pick(src, "str", []string{"hello", "localhost", "a b", "x:y", "v1.2"})}
	}
	switch src.Draw("lit", 6) {
	case 0:
		return Arg{Kind: "int", I: int64(src.Range("int", -3, 4000))}
	case 1:
		return Arg{Kind: "bool", B: src.Bool("bool")}
	case 2:
		return Arg{Kind: "null"}
	case 3:
		if g.o.SimpleVals {
			return Arg{Kind: "int", I: int64(src.Range("int", 0, 99))}
		}
		return Arg{Kind: "float", F: choice.Pick(src, "float", []string{"1.5", "-0.25", "3e2", "0.0"})}
	default:
		return Arg{Kind: "str", S: choice.Pick(src, "str", []string{"hello", "localhost", "a b", "x:y", "", "Zürich", "v1.2"})}
	}
}

// paramValue draws the value of parameter number i (may refer to parameters < i).
func (g *genState) paramValue(i int, name string) Arg {
	src := g.src
	kinds := []string{"lit", "lit", "pattern"}
	if i > 0 {
		kinds = append(kinds, "ref", "pattern")
	}
	if !g.o.NoEnv {
		kinds = append(kinds, "env", "envInt")
	}
	if !g.o.NoTodo && !g.o.NoTodoParams {
		kinds = append(kinds, "todo")
	}
	if g.fnName != "" {
		kinds = append(kinds, "fn", "fnpattern")
	}
	forceFn := false
	switch choice.Pick(src, "pkind", kinds) {
	case "fnpattern":
		// a function token in the middle of other chunks: 'worker-%fn("x")%'
		forceFn = true
	case "lit":
		a := g.litArg()
		if g.o.SimpleVals && a.Kind != "int" && a.Kind != "str" {
			a = Arg{Kind: "int", I: int64(src.Range("int", 0, 99))}
		}
		return a
	case "ref":
		return Arg{Kind: "pattern", Chunks: []Chunk{{Kind: "ref", S: g.cfg.Params[src.Draw("pref", i)].Name}}}
	case "env":
		return Arg{Kind: "pattern", Chunks: []Chunk{g.envChunk(false)}}
	case "envInt":
		return Arg{Kind: "pattern", Chunks: []Chunk{g.envChunk(true)}}
	case "todo":
		ch := Chunk{Kind: "todo"}
		if src.Bool("todomsg") {
			ch.HasDef, ch.Def = true, choice.Pick(src, "todomsgv", []string{"in development", "not implemented (yet)", "a, b (c)", "see docs) then (retry", "quota reached: 90%", "%d items %s", ""})
			if src.Chance("todoextra", 1, 4) {
				ch.Extra = choice.Pick(src, "todoextrav", []string{"see docs/ports.md", "owner: platform team", ""})
				if ch.Extra == "" {
					ch.Extra = "x"
				}
			}
		}
		return Arg{Kind: "pattern", Chunks: []Chunk{ch}}
	case "fn":
		// the argument identifies the parameter, so that evaluations can be counted per parameter
		return Arg{Kind: "pattern", Chunks: []Chunk{{Kind: "fn", S: g.fnName, Def: name}}}
	}
	// multi-chunk pattern
	n := src.Range("nchunks", 2, 4)
	var cs []Chunk
	hasFn := false
	for j := 0; j < n; j++ {
		opts := []string{"lit", "pct"}
		if i > 0 {
			opts = append(opts, "ref", "ref")
		}
		if !g.o.NoEnv {
			opts = append(opts, "env")
		}
		if g.fnName != "" && !hasFn {
			opts = append(opts, "fn")
		}
		pick := choice.Pick(src, "chunk", opts)
		if forceFn && !hasFn && j == n-1 {
			pick = "fn"
		}
		switch pick {
		case "fn":
			// at most one function chunk per parameter; its argument identifies the parameter
			hasFn = true
			cs = append(cs, Chunk{Kind: "fn", S: g.fnName, Def: name})
		case "lit":
			cs = append(cs, Chunk{Kind: "lit", S: choice.Pick(src, "chunklit", []string{":", "http://", "-", "a", " ", "say \"hi ", "5\" tall, ", "it's ", "(", "\\", "\""})})
		case "pct":
			cs = append(cs, Chunk{Kind: "pct"})
		case "ref":
			cs = append(cs, Chunk{Kind: "ref", S: g.cfg.Params[src.Draw("pref", i)].Name})
		case "env":
			cs = append(cs, g.envChunk(false))
		}
	}
	// two adjacent literals would be merged by the tokenizer; harmless
	return Arg{Kind: "pattern", Chunks: cs}
}

func (g *genState) envChunk(isInt bool) Chunk {
	src := g.src
	ch := Chunk{Kind: "env", S: choice.Pick(src, "envkey", envKeys)}
	if isInt {
		ch.Kind = "envInt"
	}
	if src.Bool("envdef") {
		ch.HasDef = true
		ch.Def = choice.Pick(src, "envdefv", []string{"dflt", "localhost"})
		ch.DefInt = src.Range("envdefi", 0, 9000)
	}
	return ch
}

// depArg draws an argument that may refer to services < nsvc, tags, params.
func (g *genState) depArg(nsvc int, allowSvc bool) Arg {
	src := g.src
	opts := []string{"lit"}
	if allowSvc && nsvc > 0 {
		opts = append(opts, "svc", "svc", "svc")
	}
	if allowSvc && nsvc > 0 {
		opts = append(opts, "tagged")
	}
	if len(g.cfg.Params) > 0 {
		opts = append(opts, "param", "pattern")
	}
	if !g.o.Plain {
		opts = append(opts, "value")
		if g.o.Runnable && g.src.Chance("agontainer", 1, 6) {
			return Arg{Kind: "gontainer"}
		}
	} else {
		var o2 []string
		for _, x := range opts {
			if x != "tagged" {
				o2 = append(o2, x)
			}
		}
		opts = o2
	}
	switch choice.Pick(src, "akind", opts) {
	case "svc":
		return Arg{Kind: "svc", S: g.cfg.Services[src.Draw("aref", nsvc)].Name}
	case "tagged":
		return Arg{Kind: "tagged", S: choice.Pick(src, "atag", tagNames)}
	case "param":
		return Arg{Kind: "pattern", Chunks: []Chunk{{Kind: "ref", S: g.cfg.Params[src.Draw("apref", len(g.cfg.Params))].Name}}}
	case "pattern":
		return Arg{Kind: "pattern", Chunks: []Chunk{
			{Kind: "lit", S: choice.Pick(src, "aplit", []string{"pre-", "x=", "", "Welcome \"", "it's ", "("})},
			{Kind: "ref", S: g.cfg.Params[src.Draw("apref", len(g.cfg.Params))].Name},
		}}
	case "value":
		return Arg{Kind: "value", S: g.fx(choice.Pick(src, "aval", []string{"GlobalVal", "Opt{}"}))}
	}
	return g.litArg()
}

// tagged dependencies may only point at services created earlier, otherwise cycles appear:
// a service tagged t created after a service that depends on "!tagged t" and depending on it.
// The generator keeps DAG-ness by construction: service i may depend on "!tagged t" only if
// it does not itself carry t and no later service both carries t and depends (transitively)
// on i. Enforced after the fact by FixTagCycles.
func (g *genState) service(name string, i int) Svc {
	src := g.src
	s := Svc{Name: name}
	if strings.HasSuffix(name, "\x00") {
		saved := g.o.NoTodo
		g.o.NoTodo = true
		defer func() { g.o.NoTodo = saved }()
	}
	todoDen := 6
	if g.o.Plain {
		todoDen = 3 // the todo/override workload (C15)
	}
	if !g.o.NoTodo && src.Chance("stodo", 1, todoDen) {
		s.Todo = true
		if g.o.TodoScoped && !g.o.NoScopes {
			s.Scope = choice.Pick(src, "stodoscope", []string{"", "shared", "contextual", "contextual", "non_shared"})
		}
		if !src.Chance("stodofull", 1, 2) {
			return s
		}
		// a complete definition that is (still) marked todo - e.g. defined in one file and switched
		// off by `todo: true` in a later one: it stays a placeholder
		full := g.service(name+"\x00", i)
		full.Name, full.Todo = name, true
		if s.Scope != "" {
			full.Scope = s.Scope
		}
		if len(full.Args) > 0 && full.Args[0].Kind == "str" {
			full.Args[0].S = name
		}
		for k := range full.Fields {
			if full.Fields[k].Name == "Name" {
				full.Fields[k].V.S = name
			}
		}
		// a placeholder may keep a sketch that refers to things not declared (yet): it is skipped by validation
		if src.Chance("stodosketch", 1, 2) {
			full.Args = append(full.Args, Arg{Kind: "svc", S: "not.declared.yet"}, Arg{Kind: "pattern", Chunks: []Chunk{{Kind: "ref", S: "not.declared.either"}}})
		}
		// a placeholder may keep its getter, even one that another service uses too: it is not generated
		if full.Getter == "" && src.Bool("stodogetter") {
			full.Getter = "Get" + goIdent(name) + strconv.Itoa(i)
		}
		if full.Getter != "" && i > 0 && src.Bool("stodogetterdup") {
			for _, other := range g.cfg.Services {
				if other.Getter != "" {
					full.Getter = other.Getter
				}
			}
		}
		full.MustGetter = nil
		return full
	}
	kinds := []string{"ctor", "ctor", "ctor", "ctorE", "value"}
	if !g.o.Plain && !g.o.NoScopes {
		kinds = append(kinds, "var")
	}
	if !g.o.OnlyPtr {
		kinds = append(kinds, "type", "leaf")
	}
	kind := choice.Pick(src, "skind", kinds)
	nameArg := Arg{Kind: "str", S: name}
	switch kind {
	case "ctor", "ctorE":
		s.Ctor = g.fx("NewNode")
		if kind == "ctorE" {
			s.Ctor = g.fx("NewNodeE")
		}
		s.Args = append(s.Args, nameArg)
		na := src.Range("snargs", 0, 3)
		for j := 0; j < na; j++ {
			s.Args = append(s.Args, g.depArg(i, true))
		}
	case "value":
		s.Value = "&" + g.fx("Node{}")
		if g.o.Plain || !src.Chance("anonvalue", 1, 3) {
			s.Fields = append(s.Fields, Field{"Name", nameArg})
		} else {
			// a bare value: no constructor, no fields, no calls (its identity is observable at top level only)
			kind = "leaf"
		}
	case "var":
		// the service is a package-level variable (not a literal): whatever scope it declares is legal; a
		// string has no identity to observe, its dependants' scopes follow from it all the same
		s.Value = g.fx("GlobalVal")
		kind = "leaf"
	case "type":
		s.Type = g.fx("Node")
		s.Fields = append(s.Fields, Field{"Name", nameArg})
	case "leaf":
		s.Ctor = g.fx("NewLeaf")
	}
	if kind != "leaf" && !g.o.Plain {
		// fields
		for _, fn := range []string{"F1", "F2", "f3"} {
			if src.Chance("sfield", 1, 4) {
				s.Fields = append(s.Fields, Field{fn, g.depArg(i, true)})
			}
		}
		// calls
		nc := src.Range("sncalls", 0, 2)
		for j := 0; j < nc; j++ {
			c := Call{Method: choice.Pick(src, "cmethod", []string{"SetA", "SetB"}), Short: src.Bool("cshort")}
			if kind != "type" && src.Chance("cwither", 1, 3) {
				c.Method, c.Wither = "WithA", true
			}
			nca := src.Range("cnargs", 0, 2)
			for k := 0; k < nca; k++ {
				c.Args = append(c.Args, g.depArg(i, true))
			}
			s.Calls = append(s.Calls, c)
		}
	}
	// tags
	for _, t := range tagNames {
		if !g.o.Plain && src.Chance("stag", 1, 4) {
			tg := Tag{Name: t}
			if src.Bool("stagprio") {
				tg.HasPrio, tg.Prio = true, src.Range("stagp", -2, 9)
			}
			s.Tags = append(s.Tags, tg)
		}
	}
	if !g.o.NoScopes {
		s.Scope = choice.Pick(src, "sscope", []string{"", "", "shared", "contextual", "non_shared"})
	}
	if kind != "type" && (kind != "leaf" || s.Value != "") && s.Value != g.fx("GlobalVal") && src.Chance("sgetter", 1, 3) {
		// distinct services need distinct getters (names may differ only in case or punctuation)
		s.Getter = "Get" + goIdent(name) + strconv.Itoa(i)
		if src.Bool("sgettype") {
			s.Type = "*" + g.fx("Node")
		}
		if src.Chance("smust", 1, 2) {
			s.MustGetter = bp(src.Bool("smustv"))
		}
	}
	return s
}

func goIdent(n string) string {
	out := []rune{}
	up := true
	for _, r := range n {
		if (r >= 'a' && r <= 'z') || (r >= 'A' && r <= 'Z') || (r >= '0' && r <= '9') {
			if up && r >= 'a' && r <= 'z' {
				r = r - 'a' + 'A'
			}
			up = false
			out = append(out, r)
		} else {
			up = true
		}
	}
	return string(out)
}

// ---------------------------------------------------------------------------------------
// graph utilities over the model (written from the docs: dependencies through arguments,
// fields, calls, tags and decorators)

// DirectDeps returns the services s depends on directly: referenced services, services
// carrying a tag it injects, and, through the decorators applied to s, the decorators' deps.
func DirectDeps(c *Cfg, s *Svc) []string {
	seen := map[string]bool{}
	var out []string
	add := func(n string) {
		if !seen[n] {
			seen[n] = true
			out = append(out, n)
		}
	}
	addArgs := func(as []Arg) {
		svcs, tags, _ := ArgRefs(as)
		for _, x := range svcs {
			add(x)
		}
		for _, t := range tags {
			for _, x := range c.Tagged(t) {
				add(x)
			}
		}
	}
	if s.Todo {
		return nil
	}
	addArgs(s.AllArgs())
	for _, d := range c.Decorators {
		if s.HasTag(d.Tag) {
			addArgs(d.Args)
		}
	}
	return out
}

// TransDeps returns all services reachable from name (excluding name unless cyclic).
func TransDeps(c *Cfg, name string) []string {
	seen := map[string]bool{}
	var out []string
	var walk func(n string)
	walk = func(n string) {
		s := c.Svc(n)
		if s == nil {
			return
		}
		for _, d := range DirectDeps(c, s) {
			if !seen[d] {
				seen[d] = true
				out = append(out, d)
				walk(d)
			}
		}
	}
	walk(name)
	return out
}

// HasCycle reports whether the service graph (incl. tag and decorator edges) has a cycle.
func HasCycle(c *Cfg) bool {
	for _, s := range c.Services {
		for _, d := range TransDeps(c, s.Name) {
			if d == s.Name {
				return true
			}
		}
	}
	return false
}

// BreakCycles removes tag/decorator-induced cycles by dropping offending tags.
func BreakCycles(c *Cfg) {
	for guard := 0; guard < 50 && HasCycle(c); guard++ {
		for i := range c.Services {
			s := &c.Services[i]
			cyc := false
			for _, d := range TransDeps(c, s.Name) {
				if d == s.Name {
					cyc = true
				}
			}
			if cyc && len(s.Tags) > 0 {
				s.Tags = s.Tags[:len(s.Tags)-1]
				break
			}
		}
	}
}

// EffectiveScope computes the scope each service has at run time per the documentation.
func EffectiveScope(c *Cfg) map[string]string {
	eff := map[string]string{}
	for _, s := range c.Services {
		if s.Scope != "" {
			eff[s.Name] = s.Scope
		}
	}
	for _, s := range c.Services {
		if s.Scope != "" {
			continue
		}
		e := "shared"
		for _, d := range TransDeps(c, s.Name) {
			if ds := c.Svc(d); ds != nil && ds.Scope == "contextual" {
				e = "contextual"
			}
		}
		eff[s.Name] = e
	}
	return eff
}

// ScopeViolations lists (shared service, contextual dependency) pairs that make c illegal.
func ScopeViolations(c *Cfg) [][2]string {
	var out [][2]string
	for _, s := range c.Services {
		if s.Scope != "shared" || s.Todo {
			continue
		}
		for _, d := range TransDeps(c, s.Name) {
			if ds := c.Svc(d); ds != nil && ds.Scope == "contextual" {
				out = append(out, [2]string{s.Name, d})
			}
		}
	}
	return out
}

// MakeScopeLegal demotes shared services that depend on contextual ones to unset.
func MakeScopeLegal(c *Cfg) {
	for _, v := range ScopeViolations(c) {
		c.Svc(v[0]).Scope = ""
	}
}

func (c *Cfg) String() string {
	return fmt.Sprintf("%d params, %d services, %d decorators", len(c.Params), len(c.Services), len(c.Decorators))
}
