package bsim

import (
	"bytes"
	"encoding/json"
	"fmt"
	"os"
	"os/exec"
	"path/filepath"
	"strings"
	"time"

	"verifsim/choice"
)

// execConcurrent runs w and its peers as concurrent processes over one directory tree. Every
// process is a real process running the instrumented tool; before each of its file operations it
// waits for the coordinator (simrt.GateWait), which lets exactly one process run at a time and
// draws who is next from w.SchedSeed. One seed is therefore one exact interleaving of the
// processes' file operations - the only way they can affect each other.
func execConcurrent(t Target, w *World) *Result {
	initBase()
	runCounter++
	top := filepath.Join(baseDir, fmt.Sprintf("r%d", runCounter))
	defer func() {
		_ = os.Chdir("/")
		_ = os.RemoveAll(top)
		if w.AbsInputs {
			_ = os.RemoveAll(absRoot())
		}
	}()
	mainW := w.Clone()
	mainW.Peers = nil
	worlds := []*World{mainW}
	for _, p := range w.Peers {
		pw := p.Clone()
		pw.Peers = nil
		// same machine, same directory, same files
		pw.Files, pw.Dirs, pw.CwdSub, pw.CwdGo, pw.AbsInputs, pw.RunFrom = mainW.Files, mainW.Dirs, mainW.CwdSub, mainW.CwdGo, mainW.AbsInputs, mainW.RunFrom
		worlds = append(worlds, pw)
	}
	before := make([]FileObs, len(worlds))
	for i, cw := range worlds {
		ph := phaseSetupOut
		if i == 0 {
			ph = phaseSetup
		}
		before[i] = execPhase(t, cw, top, ph).OutBefore
	}
	cwd := filepath.Join(top, "w")
	if w.CwdSub != "" {
		cwd = filepath.Join(top, w.CwdSub, "w")
	}
	beforeSet := map[string]bool{}
	for _, p := range listAll(cwd) {
		beforeSet[p] = true
	}

	exe, err := os.Executable()
	if err != nil {
		panic(err)
	}
	type proc struct {
		cmd     *exec.Cmd
		grant   *os.File
		resFile string
		errb    bytes.Buffer
		waiting bool
		exited  bool
	}
	type event struct {
		i  int
		ok bool // true: the process asks for its next turn; false: it has exited
	}
	events := make(chan event, 64)
	procs := make([]*proc, len(worlds))
	for i, cw := range worlds {
		reqR, reqW, err := os.Pipe()
		if err != nil {
			panic(err)
		}
		grantR, grantW, err := os.Pipe()
		if err != nil {
			panic(err)
		}
		isoCounter++
		p := &proc{grant: grantW, resFile: filepath.Join(baseDir, fmt.Sprintf("conc-%d-%d.json", isoCounter, i))}
		in, _ := json.Marshal(cw)
		cmd := exec.Command(exe, "exec1")
		cmd.Env = append(os.Environ(), "VERIFSIM_ABSROOT="+absRoot(), "VERIFSIM_RESULT="+p.resFile, "VERIFSIM_ATTACH="+top, "VERIFSIM_GATE=1")
		cmd.Stdin = bytes.NewReader(in)
		cmd.Stdout, cmd.Stderr = &p.errb, &p.errb
		cmd.ExtraFiles = []*os.File{reqW, grantR}
		if err := cmd.Start(); err != nil {
			panic(err)
		}
		_ = reqW.Close()
		_ = grantR.Close()
		p.cmd = cmd
		procs[i] = p
		go func(i int, r *os.File) {
			var b [1]byte
			for {
				if n, err := r.Read(b[:]); n == 0 || err != nil {
					events <- event{i, false}
					_ = r.Close()
					return
				}
				events <- event{i, true}
			}
		}(i, reqR)
	}
	defer func() {
		for _, p := range procs {
			_ = os.Remove(p.resFile)
			_ = p.grant.Close()
		}
	}()

	deadline := time.After(HangBudget + 30*time.Second)
	hung := false
	wait := func(n int) { // until n further events have arrived
		for ; n > 0 && !hung; n-- {
			select {
			case e := <-events:
				if e.ok {
					procs[e.i].waiting = true
				} else {
					procs[e.i].exited, procs[e.i].waiting = true, false
				}
			case <-deadline:
				hung = true
			}
		}
	}
	wait(len(procs)) // every process stands at its first gate (or died)
	var turns strings.Builder
	policy := choice.Mix(w.SchedSeed, 0) % 3
	last, step := -1, uint64(1)
	for !hung {
		var ready []int
		for i, p := range procs {
			if p.waiting {
				ready = append(ready, i)
			}
		}
		if len(ready) == 0 {
			break
		}
		r := choice.Mix(w.SchedSeed, step)
		step++
		pick := ready[int(r%uint64(len(ready)))]
		if last >= 0 && procs[last].waiting {
			switch policy {
			case 1: // bursts: stay with the same process three times out of four
				if (r>>20)%4 != 0 {
					pick = last
				}
			case 2: // long bursts
				if (r>>20)%16 != 0 {
					pick = last
				}
			}
		}
		last = pick
		if turns.Len() < 4000 {
			turns.WriteByte(byte('a' + pick))
		}
		procs[pick].waiting = false
		if _, err := procs[pick].grant.Write([]byte{1}); err != nil {
			procs[pick].exited = true
			continue
		}
		wait(1) // it runs alone until it asks again or exits
	}
	results := make([]*Result, len(procs))
	for i, p := range procs {
		if hung {
			_ = p.cmd.Process.Kill()
		}
		werr := p.cmd.Wait()
		var wr wireResult
		b, rerr := os.ReadFile(p.resFile)
		if rerr == nil {
			rerr = json.Unmarshal(b, &wr)
		}
		switch {
		case hung:
			results[i] = &Result{Exit: -2, Panic: "hang: concurrent execution did not finish within its budget\n" + tailStr(p.errb.String(), 1500)}
		case rerr != nil || wr.R == nil:
			msg := p.errb.String()
			if k := strings.Index(msg, "fatal error:"); k >= 0 {
				msg = msg[k:]
			}
			results[i] = &Result{Exit: -3, Panic: fmt.Sprintf("the process died: %v\n%s", werr, tailStr(msg, 3000))}
		default:
			wr.R.Out.Data = wr.Data
			results[i] = wr.R
		}
	}
	// the final state is what counts: a process may have been interfered with after it finished
	_ = os.Chdir(cwd)
	outs := map[string]bool{}
	for i, cw := range worlds {
		results[i].OutBefore = before[i]
		if !results[i].Out.Dev {
			results[i].Out = observe(cw.Out)
		}
		outs[filepath.Clean(cw.Out)] = true
	}
	res := results[0]
	res.Stray = nil
	for _, p := range listAll(cwd) {
		if strings.HasSuffix(p, "/") || beforeSet[p] || outs[filepath.Clean(p)] || p == "link_target.go" || p == "out/real_behind_link.go" || strings.HasPrefix(p, "linkstore/") || strings.HasPrefix(p, "realdir/") {
			continue
		}
		res.Stray = append(res.Stray, p)
	}
	res.Peers = results[1:]
	res.Turns = turns.String()
	d := digest(res)
	for _, pr := range res.Peers {
		d += digest(pr)
	}
	if os.Getenv("VERIFSIM_DEBUG_CONC") != "" {
		fmt.Fprintf(os.Stderr, "CONC turns=%s\n  %s\n", res.Turns, d)
	}
	CaseDigest = shaStr(CaseDigest + d + res.Turns)
	return res
}

func tailStr(s string, n int) string {
	if len(s) > n {
		return s[len(s)-n:]
	}
	return s
}
