package bsim

import (
	"encoding/json"
	"flag"
	"fmt"
	"os"
	"path/filepath"
	"sort"
	"strings"
	"time"

	"verifsim/choice"
	"verifsim/gen"
)

// BatchOut is what one worker process writes for the driver.
type BatchOut struct {
	Prop       string       `json:"prop"`
	Seed       uint64       `json:"seed"`
	From       int          `json:"from"`
	To         int          `json:"to"`
	Done       int          `json:"done"` // next index not yet processed
	Stats      *Stats       `json:"stats"`
	Distinct   []string     `json:"distinct"`
	Violations []*Violation `json:"violations"`
	Aborted    string       `json:"aborted,omitempty"`
	WallS      float64      `json:"wall_s"`
	EventLog   []string     `json:"event_log,omitempty"` // per-case digests, for the determinism self-test
}

type checkFn func(t Target, src *choice.Src, st *Stats) *Violation

var checks = map[string]checkFn{
	"C08": CheckC08,
}

func registerCheck(name string, f checkFn) { checks[name] = f }

// WorkerMain is the main function of the instrumented worker binary.
func WorkerMain(t Target) {
	if len(os.Args) < 2 {
		fmt.Fprintln(os.Stderr, "usage: worker run|replay ...")
		os.Exit(2)
	}
	mode := os.Args[1]
	fs := flag.NewFlagSet(mode, flag.ExitOnError)
	prop := fs.String("prop", "C08", "")
	seed := fs.Uint64("seed", 1, "")
	from := fs.Int("from", 0, "")
	to := fs.Int("to", 10, "")
	out := fs.String("out", "", "")
	file := fs.String("file", "", "")
	tier := fs.String("tier", "quick", "")
	maxS := fs.Float64("max-s", 0, "stop starting new cases after this many seconds")
	shrinkBudget := fs.Int("shrink", 150, "")
	evlog := fs.Bool("eventlog", false, "")
	retries := fs.Int("retries", 1, "replay: executions to try before concluding")
	isolate := fs.Bool("isolate", false, "run: execute every build in a process of its own (survives a dying build)")
	sameProc := fs.Bool("same-process", false, "replay: run all builds in this process instead of one process each")
	_ = fs.Parse(os.Args[2:])
	Tier = *tier
	exit := func(code int) {
		CleanupBase() // os.Exit runs no deferred calls
		os.Exit(code)
	}
	switch mode {
	case "run":
		Isolate = *isolate
		exit(runBatch(t, *prop, *seed, *from, *to, *out, *maxS, *shrinkBudget, *evlog))
	case "replay":
		Isolate = !*sameProc
		exit(replayFile(t, *file, *retries))
	case "dumpworlds":
		// development aid: materialise generated worlds for differential runs of real binaries
		for i := 0; i < *to; i++ {
			src := choice.New(choice.Mix(*seed, uint64(i)))
			w := GenWorld(src, WOpts{Defects: src.Bool("d"), Flags: true, Fake: true, KeyPerm: true, DotPkg: src.Chance("dot", 1, 8), Big: src.Chance("big", 1, 4)})
			dir := filepath.Join(*out, fmt.Sprintf("w%04d", i))
			for _, f := range w.Files {
				_ = os.MkdirAll(filepath.Join(dir, filepath.Dir(f.Path)), 0755)
				_ = os.WriteFile(filepath.Join(dir, f.Path), []byte(f.Content), 0644)
			}
			args := []string{"build"}
			for _, p := range w.Patterns {
				args = append(args, "-i", p)
			}
			args = append(args, "-o", "OUT.go")
			args = append(args, w.Flags...)
			b, _ := json.Marshal(args)
			_ = os.WriteFile(filepath.Join(dir, "args.json"), b, 0644)
		}
		exit(0)
	case "exec1":
		Exec1(t)
		exit(0)
	case "genbatch":
		o := GenBatch(t, *prop, *seed, *to, *file, *from)
		writeJSON(*out, o)
		exit(0)
	case "genone":
		b, err := os.ReadFile(*file)
		if err != nil {
			fmt.Fprintln(os.Stderr, err)
			exit(2)
		}
		var v struct {
			Cfg *gen.Cfg `json:"cfg"`
		}
		if err := json.Unmarshal(b, &v); err != nil || v.Cfg == nil {
			fmt.Fprintln(os.Stderr, "no cfg in", *file, err)
			exit(2)
		}
		o := GenOne(t, v.Cfg, *out)
		writeJSON(filepath.Join(*out, "genout.json"), o)
		exit(0)
	case "selfout":
		data, code := SelfOutput(t)
		if code != 0 || data == "" {
			fmt.Fprintln(os.Stderr, "self regeneration failed, exit", code)
			exit(1)
		}
		if err := os.WriteFile(*out, []byte(data), 0644); err != nil {
			fmt.Fprintln(os.Stderr, err)
			exit(2)
		}
		exit(0)
	default:
		fmt.Fprintln(os.Stderr, "unknown mode", mode)
		exit(2)
	}
}

var Tier = "quick"

func writeJSON(path string, v any) {
	b, err := json.MarshalIndent(v, "", " ")
	if err != nil {
		panic(err)
	}
	if path == "" || path == "-" {
		os.Stdout.Write(b)
		return
	}
	if err := os.WriteFile(path, b, 0644); err != nil {
		panic(err)
	}
}

func runBatch(t Target, prop string, seed uint64, from, to int, out string, maxS float64, shrinkBudget int, evlog bool) int {
	check := checks[prop]
	if check == nil {
		fmt.Fprintln(os.Stderr, "no such check:", prop)
		return 2
	}
	t0 := time.Now()
	bo := &BatchOut{Prop: prop, Seed: seed, From: from, To: to, Stats: NewStats(), Done: from}
	sigSeen := map[string]bool{}
	code := 0
	for i := from; i < to; i++ {
		if maxS > 0 && time.Since(t0).Seconds() > maxS {
			break
		}
		src := choice.New(choice.Mix(seed, uint64(i)))
		CaseDigest = ""
		v := check(t, src, bo.Stats)
		bo.Done = i + 1
		if evlog {
			d := "ok"
			if v != nil {
				d = v.Sig
			}
			bo.EventLog = append(bo.EventLog, fmt.Sprintf("%d %s %s %s", i, short(shaStr(fmt.Sprint(src.Values()))), short(CaseDigest), d))
		}
		if v == nil {
			continue
		}
		v.Seed, v.Index = seed, i
		v.Choices = src.Values()
		hung := strings.HasPrefix(v.Sig, "hang:")
		if !sigSeen[v.Sig] && len(bo.Violations) < 40 {
			sigSeen[v.Sig] = true
			if !hung && shrinkBudget > 0 {
				shrinkViolation(t, check, v, shrinkBudget)
			}
			bo.Violations = append(bo.Violations, v)
		}
		if hung {
			// the hung goroutine still runs inside this process: nothing after it can be trusted
			bo.Aborted = "hang"
			code = 3
			break
		}
	}
	for k := range bo.Stats.Distinct {
		bo.Distinct = append(bo.Distinct, k)
	}
	sort.Strings(bo.Distinct)
	bo.WallS = time.Since(t0).Seconds()
	writeJSON(out, bo)
	return code
}

// shrinkViolation minimises the draw sequence while a violation with the same signature
// persists, then replaces the violation's content by the minimised case.
func shrinkViolation(t Target, check checkFn, v *Violation, budget int) {
	sig := v.Sig
	var best *Violation
	fails := func(c []int) bool {
		src := choice.Replay(c)
		nv := check(t, src, nil)
		if nv != nil && nv.Sig == sig {
			nv.Choices = append([]int{}, c...)
			best = nv
			return true
		}
		return false
	}
	min := choice.Shrink(v.Choices, budget, fails)
	if best != nil {
		best.Seed, best.Index = v.Seed, v.Index
		best.Choices = min
		*v = *best
	}
}

// replayFile re-executes the worlds of a replay file in this (fresh) process.
func replayFile(t Target, path string, retries int) int {
	b, err := os.ReadFile(path)
	if err != nil {
		fmt.Fprintln(os.Stderr, err)
		return 2
	}
	var v Violation
	if err := json.Unmarshal(b, &v); err != nil {
		fmt.Fprintln(os.Stderr, err)
		return 2
	}
	sig, detail := "", ""
	if !Isolate && len(v.Worlds) > 0 {
		// same-process mode asks: does the violation exist only when this is not the first build of
		// the process? warm the process up with one build that is not judged
		w := v.Worlds[0].Clone()
		w.Faults = nil
		if v.Property == "C19" {
			loadSelf()
		}
		Exec(t, w)
	}
	for a := 0; a < retries && sig == ""; a++ {
		sig, detail = replayViolation(t, &v)
		if sig != "" && a > 0 {
			fmt.Printf("NONDETERMINISTIC: reproduced only on execution %d of the same world: the program's behaviour is not a function of the simulated inputs (uncontrolled goroutines or other real nondeterminism)\n", a+1)
		}
	}
	if sig == "" {
		fmt.Printf("NOT-REPRODUCED property=%s recorded-sig=%s\n", v.Property, v.Sig)
		return 0
	}
	fmt.Printf("REPRODUCED property=%s sig=%s recorded-sig=%s\n%s\n", v.Property, sig, v.Sig, detail)
	return 1
}

func replayViolation(t Target, v *Violation) (sig, detail string) {
	switch v.Mode {
	case "single":
		r := Exec(t, v.Worlds[0])
		if nv := monitorC12(v.Worlds[0], r); nv != nil {
			return nv.Sig, nv.Detail
		}
		return "", ""
	case "twin-all", "twin-out":
		a := Exec(t, v.Worlds[0])
		b := Exec(t, v.Worlds[1])
		if d := diff(a, b, v.Mode == "twin-out"); len(d) > 0 {
			return v.Sig, explain(a, b)
		}
		return "", ""
	}
	if f := replayModes[v.Mode]; f != nil {
		return f(t, v)
	}
	return "", "unknown replay mode " + v.Mode
}

var replayModes = map[string]func(t Target, v *Violation) (string, string){}
