package bsim

import (
	"fmt"
	"go/parser"
	"go/token"
	"path/filepath"
	"regexp"
	"strconv"
	"strings"

	"verifsim/choice"
	"verifsim/simrt"
)

func init() {
	registerCheck("C10", CheckC10)
	replayModes["c10"] = replayC10
}

var (
	reItem  = regexp.MustCompile(`^(\d+)\. `)
	reCount = regexp.MustCompile(`\[⨉\] \((\d+) errors?\)`)
)

// errorList parses the report of a failing run: the numbered items after "Errors:" and the
// count printed on the failing step's END line.
func errorList(stdout string) (items []int, count int, hasBlock bool, countFound bool) {
	lines := strings.Split(stdout, "\n")
	in := false
	for _, l := range lines {
		if !in {
			if m := reCount.FindStringSubmatch(l); m != nil {
				count, _ = strconv.Atoi(m[1])
				countFound = true
			}
			if l == "Errors:" {
				in, hasBlock = true, true
			}
			continue
		}
		if m := reItem.FindStringSubmatch(l); m != nil {
			n, _ := strconv.Atoi(m[1])
			// a continuation line of a multi-line message may itself look like "3. ..." only if
			// it continues the numbering; numbering must be exactly 1..n, so count what is there
			items = append(items, n)
		}
	}
	return
}

// contract evaluates the clauses of C10 that can be judged on one run alone.
// g is the reference output for this world ("" if the reference run rejected it / unknown).
func contract(w *World, r *Result, refExit int, g *FileObs) (clause, detail string) {
	quiet := w.HasFlag("--quiet") || w.HasFlag("-q")
	if r.Exit == -1 || r.Exit == -3 {
		return "panic", "the command panicked:\n" + r.Panic
	}
	if r.Exit == -2 {
		return "hang", r.Panic
	}
	if quiet && (r.Stdout != "" || r.Stderr != "") {
		return "quiet-prints", fmt.Sprintf("--quiet run printed %d bytes to stdout, %d to stderr: %q", len(r.Stdout), len(r.Stderr), short(r.Stdout+r.Stderr))
	}
	if len(r.InputsChanged) > 0 {
		return "input-modified", "input files were modified: " + strings.Join(r.InputsChanged, ", ")
	}
	if r.Exit == 0 {
		if w.OutKind == "devnull" || w.OutKind == "devfull" || w.OutKind == "devzero" || w.OutKind == "pipe" {
			if w.OutKind == "devfull" {
				return "exit0-without-output", "exit 0 although every write to /dev/full fails with ENOSPC"
			}
			return "", ""
		}
		if !r.Out.Exists || r.Out.IsDir {
			return "exit0-without-output", "exit 0 but the -o path holds no regular file"
		}
		if g != nil {
			if r.Out.Sha != g.Sha {
				return "exit0-incomplete-output", fmt.Sprintf("exit 0 but -o (%d bytes, %s) is not the complete generated source (%d bytes, %s)", r.Out.Size, short(r.Out.Sha), g.Size, short(g.Sha))
			}
		} else if refExit != 0 {
			return "exit0-on-rejected-world", "exit 0 although the fault-free run of the same world is rejected"
		}
		if _, err := parser.ParseFile(token.NewFileSet(), "out.go", r.Out.Data, parser.AllErrors); err != nil {
			return "exit0-incomplete-output", "exit 0 but -o does not parse as Go: " + err.Error()
		}
		return "", ""
	}
	// failure
	if !r.Out.Same(r.OutBefore) {
		return "out-changed-on-failure", fmt.Sprintf("exit %d but the -o path changed: before %s, after %s", r.Exit, obs(r.OutBefore), obs(r.Out))
	}
	if !quiet {
		items, count, hasBlock, countFound := errorList(r.Stdout)
		if !hasBlock || len(items) == 0 {
			return "no-error-list", "failing run printed no numbered error list"
		}
		for i, n := range items {
			if n != i+1 {
				return "error-list-numbering", fmt.Sprintf("error list is not numbered 1..n: %v", items)
			}
		}
		if countFound && count != len(items) {
			return "error-count-mismatch", fmt.Sprintf("failing step reports %d error(s) but the list has %d item(s)", count, len(items))
		}
		if !countFound {
			return "no-error-count", "no failing step END line with an error count"
		}
	}
	return "", ""
}

func obs(o FileObs) string {
	if !o.Exists {
		return "absent"
	}
	if o.IsDir {
		return "dir"
	}
	return fmt.Sprintf("%d bytes/%s/mode %o", o.Size, short(o.Sha), o.Mode)
}

// mustFail reports whether the world model says the run has to fail for an enumerated reason.
func mustFail(w *World) string {
	if strings.HasPrefix(w.Class, "env:") || strings.HasSuffix(w.Class, "-dangling-params") {
		return w.Class
	}
	switch w.OutKind {
	case "missingdir", "isdir", "devfull", "symlink-cycle", "symlink-self":
		return "env:output-" + w.OutKind
	}
	return ""
}

var faultKinds = map[string][]string{
	"open-r":      {"ENOENT", "EACCES", "EIO", "EMFILE"},
	"read":        {"EIO"},
	"close-r":     {"EIO"},
	"open-w":      {"ENOENT", "EACCES", "EISDIR", "EROFS", "ENOSPC"},
	"write":       {"ENOSPC", "EIO"},
	"close-w":     {"EIO", "ENOSPC"},
	"rename":      {"EXDEV", "EACCES", "EIO"},
	"create-temp": {"EACCES", "ENOSPC", "EROFS"},
	"remove":      {"EACCES", "EIO"},
	"stat":        {"EACCES", "EIO"},
	"chmod":       {"EPERM"},
	"mkdir":       {"EACCES", "ENOSPC"},
	"sync":        {"EIO"},
	"truncate":    {"EIO"},
}

var corruptKinds = []string{"trunc", "flip", "zero", "dup", "splice"}

// sweepFaults enumerates the single-fault space of a fault-free run.
func sweepFaults(src *choice.Src, ref *Result, w *World) []simrt.Fault {
	var fs []simrt.Fault
	for _, op := range ref.Ops {
		// a signal just before this operation: SIGTERM on every one, SIGINT on a drawn third
		fs = append(fs, simrt.Fault{At: op.Seq, OpKind: op.Kind, Kind: "SIGTERM"})
		if src.Chance("sweep.sigint", 1, 3) {
			fs = append(fs, simrt.Fault{At: op.Seq, OpKind: op.Kind, Kind: "SIGINT"})
		}
		for _, k := range faultKinds[op.Kind] {
			switch op.Kind {
			case "write", "read":
				n := op.N
				args := []int{0}
				if n > 1 {
					args = append(args, 1, n/2, n-1, src.Draw("sweep.k", n))
				}
				if op.Kind == "read" && n == 0 {
					args = []int{0}
				}
				seen := map[int]bool{}
				for _, a := range args {
					if !seen[a] {
						seen[a] = true
						fs = append(fs, simrt.Fault{At: op.Seq, OpKind: op.Kind, Kind: k, Arg: a})
					}
				}
			default:
				fs = append(fs, simrt.Fault{At: op.Seq, OpKind: op.Kind, Kind: k})
			}
		}
		if op.Kind == "open-r" && op.Err == "" {
			for _, k := range corruptKinds {
				fs = append(fs, simrt.Fault{At: op.Seq, OpKind: "corrupt", Kind: k, Arg: src.Draw("sweep.corrupt", 4096)})
			}
		}
	}
	return fs
}

// judgeFaulted evaluates one faulted run against the reference run of the same world.
func judgeFaulted(t Target, w *World, ref *Result, fw *World, fr *Result, st *Stats) (clause, detail string) {
	var g *FileObs
	if ref.Exit == 0 && outIsFile(w) {
		o := ref.Out
		g = &o
	}
	for _, f := range fr.Fired {
		if f.Kind != "SIGTERM" && f.Kind != "SIGINT" {
			continue
		}
		if fr.Exit == -1 || fr.Exit == -2 {
			return contract(fw, fr, ref.Exit, g)
		}
		if fr.Killed != "" {
			// the process died at that operation (no handler): whatever it had done so far is what there is.
			// The -o path holds what it held before, or the complete source (the kill came after the
			// commit) - never anything in between
			if fr.Out.Same(fr.OutBefore) || (g != nil && fr.Out.Sha == g.Sha && ref.Exit == 0) {
				return "", ""
			}
			return "killed:out-neither-old-nor-complete", fmt.Sprintf("the process was killed by %s at that operation; -o before %s, after %s, complete source %s", fr.Killed, obs(fr.OutBefore), obs(fr.Out), map[bool]string{true: obs(*orEmpty(g)), false: "(the world is rejected)"}[g != nil])
		}
		// a handler took the signal and the program went on: it chose its exit status itself, so status and
		// file effects must agree as always (the report of an interrupted run is not judged)
		switch {
		case fr.Exit == 0 && g != nil && fr.Out.Sha != g.Sha:
			return "exit0-incomplete-output", fmt.Sprintf("after handling %s the command exited 0 without the complete source at -o", f.Kind)
		case fr.Exit == 0 && ref.Exit != 0:
			return "fault-turned-rejection-into-success", "the fault-free run rejects this world, the interrupted run exits 0"
		case fr.Exit != 0 && !fr.Out.Same(fr.OutBefore):
			return "out-changed-on-failure", fmt.Sprintf("after handling %s the command exited %d, yet the -o path changed: before %s, after %s", f.Kind, fr.Exit, obs(fr.OutBefore), obs(fr.Out))
		}
		return "", ""
	}
	corruptFired := false
	for _, f := range fr.Fired {
		if f.OpKind == "corrupt" {
			corruptFired = true
		}
	}
	if corruptFired {
		for _, f := range fr.Fired {
			if f.OpKind != "corrupt" {
				continue
			}
			reads := 0
			for _, op := range fr.Ops {
				if op.Kind == "open-r" && cleanEq(op.Path, fr.Ops[f.At].Path) {
					reads++
				}
			}
			if reads > 1 {
				// the file is read more than once and only one read was corrupted: no single world
				// holds "the bytes as delivered"; only the run-local clauses are judged
				if st != nil {
					st.Probes["transient-corruption-on-multiply-read-file"]++
				}
				return contract(fw, fr, 0, nil)
			}
		}
		// the verdict expected is that of a fault-free run on a world that really holds the
		// corrupted bytes: same exit status, report and output
		cw := fw.Clone()
		cw.Faults = nil
		for _, f := range fr.Fired {
			if f.OpKind != "corrupt" {
				continue
			}
			path := fr.Ops[f.At].Path
			for i := range cw.Files {
				if cleanEq(cw.Files[i].Path, path) {
					cw.Files[i].Content = string(simrt.Corrupt([]byte(cw.Files[i].Content), f.Kind, f.Arg))
				}
			}
		}
		cr := Exec(t, cw)
		if st != nil {
			st.note(cw, cr)
			st.Probes["corrupt-reference-runs"]++
		}
		if cr.Exit == -1 || cr.Exit == -2 {
			return "", "" // C12's business, reported there
		}
		if d := diff(cr, fr, false); len(d) > 0 {
			return "corrupt-read-differs-from-file-with-same-bytes:" + strings.Join(d, "+"), explain(cr, fr)
		}
		var cg *FileObs
		if cr.Exit == 0 && outIsFile(w) {
			o := cr.Out
			cg = &o
		}
		return contract(fw, fr, cr.Exit, cg)
	}
	if c, d := contract(fw, fr, ref.Exit, g); c != "" {
		return c, d
	}
	if ref.Exit != 0 && fr.Exit == 0 {
		return "fault-turned-rejection-into-success", "the fault-free run rejects this world, the faulted run exits 0"
	}
	// an error-returning fault on the last read attempt of an input file => must fail
	lastRead := map[string]string{} // path -> "" ok | fault
	for _, op := range fr.Ops {
		switch op.Kind {
		case "open-r":
			if op.Fault != "" && simrt.IsErrno(op.Fault) {
				lastRead[op.Path] = op.Kind + ":" + op.Fault
			} else if op.Err == "" {
				lastRead[op.Path] = ""
			}
		case "read":
			if op.Fault != "" && simrt.IsErrno(op.Fault) {
				lastRead[op.Path] = op.Kind + ":" + op.Fault
			}
		}
	}
	for p, f := range lastRead {
		if f != "" && fr.Exit == 0 && isInput(w, p) {
			return "unreadable-input-ignored", fmt.Sprintf("reading %s failed (%s) and the command still exited 0", p, f)
		}
	}
	return "", ""
}

func orEmpty(o *FileObs) *FileObs {
	if o == nil {
		return &FileObs{}
	}
	return o
}

func cleanEq(a, b string) bool { return filepath.Clean(a) == filepath.Clean(b) }

func isInput(w *World, p string) bool {
	for _, f := range w.Files {
		if cleanEq(f.Path, p) || strings.HasSuffix(filepath.Clean(p), "/"+filepath.Clean(f.Path)) {
			return true // (absolute input roots and run-from spellings put a prefix before the world's path)
		}
	}
	return false
}

func genC10World(src *choice.Src) *World {
	o := WOpts{Defects: true, LayoutFault: true, Flags: true, Fake: true}
	if src.Chance("swarm.nodefects", 1, 2) {
		o.Defects = false
	}
	if src.Chance("swarm.nolayout", 1, 2) {
		o.LayoutFault = false
	}
	w := GenWorld(src, o)
	if src.Chance("c10.manyerrors", 1, 30) {
		// a configuration with exactly N errors of one kind (the count must not matter, not even 256)
		n := choice.Pick(src, "c10.nerrors", []int{2, 255, 256, 257, 512})
		var sb strings.Builder
		sb.WriteString("parameters:\n")
		for i := 0; i < n; i++ {
			fmt.Fprintf(&sb, "  p%d: \"%%missing%d%%\"\n", i, i)
		}
		w.Files = []InFile{{Path: "many-errors.yaml", Content: sb.String()}}
		w.Patterns = []string{"many-errors.yaml"}
		w.Dirs = nil
		w.Cfg = nil
		w.Class = fmt.Sprintf("defect:%d-dangling-params", n)
		var fl []string
		for _, f := range w.Flags {
			if f != "--ignore-missing-params" {
				fl = append(fl, f)
			}
		}
		w.Flags = fl
	}
	if w.PreOut == nil && w.OutKind == "file" && src.Chance("c10.preout", 1, 2) {
		w.PreOut = &InFile{Path: w.Out, Content: "// SENTINEL\npackage old\n", Mode: 0644}
	}
	return w
}

func c10Violation(sig, detail string, worlds ...*World) *Violation {
	return &Violation{Property: "C10", Sig: sig, Detail: detail, Worlds: worlds, Mode: "c10"}
}

// CheckC10: fault-free pass, --quiet twin, complete single-fault sweep, seeded multi-fault plans.
func CheckC10(t Target, src *choice.Src, st *Stats) *Violation {
	w := genC10World(src)
	ref := Exec(t, w)
	if st != nil {
		st.Worlds++
		st.Classes[w.Class]++
		st.note(w, ref)
		st.Distinct[worldShape(w, ref)]++
	}
	if monitorC12(w, ref) != nil {
		if st != nil {
			st.Probes["c12-monitor-fired"]++
		}
		return nil
	}
	// ---- pass 1: no injected faults
	var g *FileObs
	if ref.Exit == 0 && outIsFile(w) {
		o := ref.Out
		g = &o
	}
	if c, d := contract(w, ref, ref.Exit, g); c != "" {
		return c10Violation("nofault:"+c+":"+classKey(w), d+"\n"+tail(ref.Stdout, 12), w)
	}
	// "the complete generated source" is what the same world writes to a fresh path: whatever -o
	// was before (a file with other content and mode, a symbolic link), the bytes must be the same
	if ref.Exit != 0 && mustFail(w) == "" && (w.OutKind == "symlink" || w.OutKind == "symlink-chain" || w.OutKind == "symlink-dotdot-via-linked-dir" || w.OutKind == "symlink-dangling" || (w.OutKind == "file" && w.PreOut != nil)) {
		// the other direction: a writable -o - an existing file, a link or a chain of links to a file or to a
		// place where a file can be created - is no reason to fail: the same world with a fresh path decides
		fw := w.Clone()
		fw.OutKind, fw.PreOut, fw.Out = "file", nil, "fresh_output_twin.go"
		fr := Exec(t, fw)
		if st != nil {
			st.note(fw, fr)
			st.Probes["fresh-output-twins"]++
		}
		if fr.Exit == 0 {
			return c10Violation("nofault:fails-only-because-of-what-is-at-o:"+w.OutKind, fmt.Sprintf("the build fails (exit %d) with -o %s (%s), but succeeds when the same world writes to a fresh path: the output was writable\n%s", ref.Exit, w.Out, w.OutKind, tail(ref.Stdout, 8)), w, fw)
		}
	}
	if ref.Exit == 0 && g != nil && (w.PreOut != nil || w.OutKind == "symlink") {
		fw := w.Clone()
		fw.OutKind, fw.PreOut, fw.Out = "file", nil, "fresh_output_twin.go"
		fr := Exec(t, fw)
		if st != nil {
			st.note(fw, fr)
			st.Probes["fresh-output-twins"]++
		}
		if fr.Exit == 0 && fr.Out.Sha != ref.Out.Sha {
			return c10Violation("nofault:exit0-incomplete-output:differs-from-fresh-path:"+w.OutKind, fmt.Sprintf("exit 0, but the bytes at the pre-existing -o (%s, %d bytes) differ from what the same build writes to a fresh path (%d bytes)", w.OutKind, ref.Out.Size, fr.Out.Size), w, fw)
		}
	}
	// a history: the same -o was written a moment ago by a successful build of a slightly different set of
	// inputs (one more file and pattern) with the same binary; the inputs are older than that file. The
	// rebuild must put there what the same world writes to a fresh path
	if ref.Exit == 0 && g != nil && w.OutKind == "file" && !w.AbsInputs && src.Chance("history", 1, 3) {
		pw := w.Clone()
		pw.PreOut = nil
		pw.Files = append(pw.Files, InFile{Path: "zz_previous_only/extra.yaml", Content: "parameters:\n  onlyInThePreviousBuild: 1\n"})
		pw.Patterns = append(pw.Patterns, "zz_previous_only/extra.yaml")
		pr := Exec(t, pw)
		if st != nil {
			st.note(pw, pr)
		}
		if pr.Exit == 0 && pr.Out.Exists && pr.Out.Sha != g.Sha {
			hw := w.Clone()
			hw.PreOut = &InFile{Path: w.Out, Content: pr.Out.Data, Mode: 0644}
			hr := Exec(t, hw)
			if st != nil {
				st.note(hw, hr)
				st.Probes["rebuilds-over-a-previous-generation-of-other-inputs"]++
			}
			fw := w.Clone()
			fw.OutKind, fw.PreOut, fw.Out = "file", nil, "fresh_output_twin.go"
			fr := Exec(t, fw)
			if st != nil {
				st.note(fw, fr)
			}
			if fr.Exit == 0 && (hr.Exit != 0 || hr.Out.Sha != fr.Out.Sha) {
				return c10Violation("history:exit0-incomplete-output:previous-generation-kept", fmt.Sprintf("-o held the output of an earlier build of other inputs (one more file); the rebuild ended with exit %d and -o %s, a fresh path gets %s", hr.Exit, obs(hr.Out), obs(fr.Out)), w, hw, fw)
			}
		}
	}
	if why := mustFail(w); why != "" && ref.Exit == 0 {
		return c10Violation("nofault:exit0-on-failure-class:"+why, "the world is in failure class "+why+" but the command exited 0\n"+tail(ref.Stdout, 12), w)
	}
	// --quiet twin: same status, same file effects
	qw := w.Clone()
	if w.HasFlag("--quiet") {
		var fl []string
		for _, f := range w.Flags {
			if f != "--quiet" {
				fl = append(fl, f)
			}
		}
		qw.Flags = fl
	} else {
		qw.Flags = append(qw.Flags, "--quiet")
	}
	qr := Exec(t, qw)
	if st != nil {
		st.note(qw, qr)
		st.Probes["quiet-twins"]++
	}
	if qr.Exit != ref.Exit || !qr.Out.Same(ref.Out) {
		return c10Violation("nofault:quiet-changes-outcome", "toggling --quiet changed exit status or file effects\n"+explain(ref, qr), w, qw)
	}
	if c, d := contract(qw, qr, ref.Exit, g); c != "" {
		return c10Violation("nofault:"+c+":"+classKey(qw), d, qw)
	}
	// the same build started twice at the same time (a file watcher firing twice, make -j): into two
	// files of one directory, or into the very same -o. Each process must keep the contract on its own:
	// the status of the fault-free run, exit 0 with the complete source, a failure without a trace.
	if w.OutKind == "file" && !w.AbsInputs && src.Chance("concurrent", 1, 4) {
		cw := w.Clone()
		p := &World{OutKind: "file", Out: w.Out, PreOut: w.PreOut, Patterns: append([]string{}, w.Patterns...), Flags: append([]string{}, qw.Flags...),
			MapSeed: seed64(src, "peer.map"), ListSeed: seed64(src, "peer.list"), RandSeed: seed64(src, "peer.rand"), Clock: w.Clock, Pid: w.Pid + 3, Host: w.Host,
			Version: w.Version, Commit: w.Commit, Date: w.Date, Dirty: w.Dirty, Env: w.Env, NoGo: w.NoGo}
		same := src.Bool("concurrent.same-out")
		if !same {
			p.Out, p.PreOut = filepath.Join(filepath.Dir(w.Out), "zz_concurrent_peer.go"), nil
		}
		cw.Peers, cw.SchedSeed = []*World{p}, seed64(src, "concurrent.sched")
		cr := Exec(t, cw)
		if st != nil {
			st.note(cw, cr)
			st.Probes["concurrent-executions"]++
			st.Probes["concurrent-turns"] += len(cr.Turns)
		}
		if sig, det := judgeConcurrent(cw, cr, ref, g); sig != "" {
			return c10Violation(sig, det, w, cw)
		}
	}
	// a report stream that is broken from the first byte (`> /dev/full`): the property does not list it
	// among the failure causes and the tool may even panic, but status and file effects must still
	// agree: non-zero status => -o untouched, status 0 => the complete source
	if !w.HasFlag("--quiet") {
		sw := w.Clone()
		sw.StdoutFailFrom = 1
		sr := Exec(t, sw)
		if st != nil {
			st.note(sw, sr)
			st.Probes["broken-stdout-runs"]++
		}
		if sr.Exit != 0 && sr.Exit != -2 && !sr.Out.Same(sr.OutBefore) {
			return c10Violation("stdout-broken:out-changed-on-failure", fmt.Sprintf("with a report stream that rejects every write the command ended with status %d, yet the -o path changed: before %s, after %s", sr.Exit, obs(sr.OutBefore), obs(sr.Out)), w, sw)
		}
		if sr.Exit == 0 && g != nil && sr.Out.Sha != g.Sha {
			return c10Violation("stdout-broken:exit0-incomplete-output", "with a broken report stream the command exited 0 without the complete source at -o", w, sw)
		}
	}
	// ---- pass 2: every single fault of the run's operation history
	sweep := sweepFaults(src, ref, w)
	if st != nil {
		st.Probes["sweep-faults"] += len(sweep)
		st.Probes["sweep-worlds"]++
	}
	if st != nil && len(st.Samples) < 3 {
		var ops []string
		for _, o := range ref.Ops {
			ops = append(ops, fmt.Sprintf("%d:%s(%s)", o.Seq, o.Kind, o.Path))
		}
		st.Samples = append(st.Samples, map[string]any{"class": w.Class, "patterns": w.Patterns, "files": fileNames(w), "out": w.Out, "out_kind": w.OutKind,
			"pre_existing_out": w.PreOut != nil, "flags": w.Flags, "fault_free_exit": ref.Exit, "fault_free_ops": ops, "single_faults_enumerated": len(sweep), "first_faults": firstFaults(sweep, 6)})
	}
	for fi, f := range sweep {
		fw := w.Clone()
		fw.Faults = []simrt.Fault{f}
		fr := Exec(t, fw)
		if st != nil {
			st.note(fw, fr)
		}
		if len(fr.Fired) == 0 {
			if st != nil {
				st.Probes["planned-fault-did-not-fire"]++
			}
			continue
		}
		if c, d := judgeFaulted(t, w, ref, fw, fr, st); c != "" {
			return c10Violation(fmt.Sprintf("%s:%s:%s", f.OpKind, f.Kind, c), fmt.Sprintf("fault %+v on op %d (%s %s)\n%s\n%s", f, f.At, ref.Ops[f.At].Kind, ref.Ops[f.At].Path, d, tail(fr.Stdout, 10)), w, fw)
		}
		// --quiet must not change status or file effects under faults either (every 5th fault of the sweep)
		if fi%5 == 0 && f.OpKind != "corrupt" {
			qf := qw.Clone()
			qf.Faults = []simrt.Fault{f}
			qfr := Exec(t, qf)
			if st != nil {
				st.note(qf, qfr)
				st.Probes["quiet-twins-under-a-fault"]++
			}
			if len(qfr.Fired) > 0 && (qfr.Exit != fr.Exit || !qfr.Out.Same(fr.Out)) {
				return c10Violation(fmt.Sprintf("%s:%s:quiet-changes-outcome", f.OpKind, f.Kind), fmt.Sprintf("with fault %+v toggling --quiet changed exit status or file effects\n%s", f, explain(fr, qfr)), w, fw, qf)
			}
		}
		// second order: operations that exist only because this fault fired (a fallback path, a
		// clean-up) get the complete fault treatment as well
		if f.OpKind == "corrupt" {
			continue
		}
		known := map[string]int{}
		for _, o := range ref.Ops {
			known[o.Kind+"\x00"+o.Path]++
		}
		for _, op2 := range fr.Ops {
			k := op2.Kind + "\x00" + op2.Path
			if known[k] > 0 { // an operation the fault-free run performs too (possibly at another index)
				known[k]--
				continue
			}
			if op2.Seq <= f.At {
				continue
			}
			for _, k2 := range faultKinds[op2.Kind] {
				f2 := simrt.Fault{At: op2.Seq, OpKind: op2.Kind, Kind: k2}
				fw2 := w.Clone()
				fw2.Faults = []simrt.Fault{f, f2}
				fr2 := Exec(t, fw2)
				if st != nil {
					st.note(fw2, fr2)
					st.Probes["second-order-fault-runs"]++
				}
				if len(fr2.Fired) < 2 {
					continue
				}
				if c, d := judgeFaulted(t, w, ref, fw2, fr2, st); c != "" {
					return c10Violation(fmt.Sprintf("%s:%s+%s:%s:%s", f.OpKind, f.Kind, f2.OpKind, f2.Kind, c),
						fmt.Sprintf("fault %+v, then %+v on an operation that only exists after the first fault (%s %s)\n%s\n%s", f, f2, op2.Kind, op2.Path, d, tail(fr2.Stdout, 10)), w, fw2)
				}
			}
		}
	}
	// ---- pass 3: seeded multi-fault plans, biased to land inside later operations
	nplans := 6
	var errnoSweep []simrt.Fault
	for _, f := range sweep {
		if f.OpKind != "corrupt" {
			errnoSweep = append(errnoSweep, f)
		}
	}
	sweep = errnoSweep
	for p := 0; p < nplans && len(sweep) > 1; p++ {
		fw := w.Clone()
		n := src.Range("multi.n", 2, 3)
		for i := 0; i < n; i++ {
			fw.Faults = append(fw.Faults, sweep[src.Draw("multi.f", len(sweep))])
		}
		fr := Exec(t, fw)
		if st != nil {
			st.note(fw, fr)
			st.Probes["multi-fault-runs"]++
			if len(fr.Fired) >= 2 {
				st.Probes["multi-fault-runs-with>=2-fired"]++
			}
		}
		if len(fr.Fired) == 0 {
			continue
		}
		if c, d := judgeFaulted(t, w, ref, fw, fr, st); c != "" {
			f := fr.Fired[len(fr.Fired)-1]
			return c10Violation(fmt.Sprintf("multi:%s:%s:%s", f.OpKind, f.Kind, c), fmt.Sprintf("faults %+v\n%s\n%s", fw.Faults, d, tail(fr.Stdout, 10)), w, fw)
		}
	}
	return nil
}

func firstFaults(fs []simrt.Fault, n int) []simrt.Fault {
	if len(fs) > n {
		return fs[:n]
	}
	return fs
}

func classKey(w *World) string {
	c := w.Class
	if i := strings.IndexAny(c, "+"); i > 0 {
		c = c[:i]
	}
	return c
}

func tail(s string, n int) string {
	ls := strings.Split(strings.TrimRight(s, "\n"), "\n")
	if len(ls) > n {
		ls = ls[len(ls)-n:]
	}
	return strings.Join(ls, "\n")
}

// replayC10 re-evaluates the recorded worlds: worlds[0] fault-free reference, worlds[last] the failing one.
func replayC10(t Target, v *Violation) (string, string) {
	w := v.Worlds[0]
	ref := Exec(t, w)
	if strings.HasPrefix(v.Sig, "history:") && len(v.Worlds) == 3 {
		hr, fr := Exec(t, v.Worlds[1]), Exec(t, v.Worlds[2])
		if fr.Exit == 0 && (hr.Exit != 0 || hr.Out.Sha != fr.Out.Sha) {
			return v.Sig, fmt.Sprintf("rebuild: exit %d, -o %s; fresh path: %s", hr.Exit, obs(hr.Out), obs(fr.Out))
		}
		return "", ""
	}
	if strings.HasPrefix(v.Sig, "nofault:fails-only-because-of-what-is-at-o") && len(v.Worlds) == 2 {
		fr := Exec(t, v.Worlds[1])
		if ref.Exit != 0 && fr.Exit == 0 {
			return v.Sig, fmt.Sprintf("exit %d with the given -o, exit 0 with a fresh path", ref.Exit)
		}
		return "", ""
	}
	if strings.HasPrefix(v.Sig, "nofault:exit0-incomplete-output:differs-from-fresh-path") && len(v.Worlds) == 2 {
		fr := Exec(t, v.Worlds[1])
		if ref.Exit == 0 && fr.Exit == 0 && fr.Out.Sha != ref.Out.Sha {
			return v.Sig, fmt.Sprintf("pre-existing -o: %d bytes, fresh path: %d bytes", ref.Out.Size, fr.Out.Size)
		}
		return "", ""
	}
	var g *FileObs
	if ref.Exit == 0 && outIsFile(w) {
		o := ref.Out
		g = &o
	}
	parts := strings.SplitN(v.Sig, ":", 3)
	if parts[0] == "concurrent" && len(v.Worlds) == 2 {
		cw := v.Worlds[1]
		return judgeConcurrent(cw, Exec(t, cw), ref, g)
	}
	if parts[0] == "stdout-broken" && len(v.Worlds) == 2 {
		sr := Exec(t, v.Worlds[1])
		if sr.Exit != 0 && sr.Exit != -2 && !sr.Out.Same(sr.OutBefore) {
			return "stdout-broken:out-changed-on-failure", fmt.Sprintf("status %d, -o before %s, after %s", sr.Exit, obs(sr.OutBefore), obs(sr.Out))
		}
		if sr.Exit == 0 && g != nil && sr.Out.Sha != g.Sha {
			return "stdout-broken:exit0-incomplete-output", "exit 0 without the complete source"
		}
		return "", ""
	}
	if strings.HasSuffix(v.Sig, ":quiet-changes-outcome") && parts[0] != "nofault" && len(v.Worlds) == 3 {
		fr, qfr := Exec(t, v.Worlds[1]), Exec(t, v.Worlds[2])
		if qfr.Exit != fr.Exit || !qfr.Out.Same(fr.Out) {
			return v.Sig, explain(fr, qfr)
		}
		return "", ""
	}
	if parts[0] == "nofault" {
		if len(v.Worlds) == 2 && strings.HasPrefix(v.Sig, "nofault:quiet-changes-outcome") {
			qr := Exec(t, v.Worlds[1])
			if qr.Exit != ref.Exit || !qr.Out.Same(ref.Out) {
				return v.Sig, explain(ref, qr)
			}
			return "", ""
		}
		x := v.Worlds[len(v.Worlds)-1]
		xr := Exec(t, x)
		if c, d := contract(x, xr, ref.Exit, g); c != "" {
			return "nofault:" + c + ":" + classKey(x), d
		}
		if why := mustFail(x); why != "" && xr.Exit == 0 {
			return "nofault:exit0-on-failure-class:" + why, "exit 0 in failure class " + why
		}
		return "", ""
	}
	fw := v.Worlds[len(v.Worlds)-1]
	fr := Exec(t, fw)
	if len(fr.Fired) == 0 {
		return "", "planned fault did not fire"
	}
	if c, d := judgeFaulted(t, w, ref, fw, fr, nil); c != "" {
		f := fr.Fired[len(fr.Fired)-1]
		if len(fw.Faults) == 1 {
			f = fw.Faults[0]
		}
		pre := ""
		if parts[0] == "multi" {
			pre = "multi:"
		}
		return fmt.Sprintf("%s%s:%s:%s", pre, f.OpKind, f.Kind, c), d
	}
	return "", ""
}

// judgeConcurrent: each of two concurrent builds of the same inputs keeps the contract on its own.
func judgeConcurrent(cw *World, cr, ref *Result, g *FileObs) (string, string) {
	if len(cr.Peers) != 1 || len(cw.Peers) != 1 {
		return "", ""
	}
	kind := "two-outs"
	if cleanEq(cw.Out, cw.Peers[0].Out) {
		kind = "same-out"
	}
	for i, r := range []*Result{cr, cr.Peers[0]} {
		who := []string{"first", "second"}[i]
		det := fmt.Sprintf("two concurrent builds of the same inputs (%s); the %s process: exit %d, -o before %s, after %s; alone: exit %d\nturns: %s\n%s", kind, who, r.Exit, obs(r.OutBefore), obs(r.Out), ref.Exit, cr.Turns, tail(r.Stdout, 8))
		switch {
		case r.Exit < 0:
			return "concurrent:" + kind + ":crashed", det + "\n" + r.Panic
		case r.Exit != ref.Exit:
			return "concurrent:" + kind + ":status-differs-from-solo", det
		case r.Exit == 0 && g != nil && r.Out.Sha != g.Sha:
			return "concurrent:" + kind + ":exit0-incomplete-output", det
		case r.Exit != 0 && !r.Out.Same(r.OutBefore):
			return "concurrent:" + kind + ":out-changed-on-failure", det
		}
	}
	return "", ""
}

// outIsFile: -o ends up as (a link to) a regular file whose bytes can be compared.
func outIsFile(w *World) bool {
	return w.OutKind == "file" || w.OutKind == "symlink" || w.OutKind == "symlink-dangling" || w.OutKind == "symlink-chain" || w.OutKind == "symlink-dotdot-via-linked-dir"
}
