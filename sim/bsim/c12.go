package bsim

import (
	"crypto/sha256"
	"encoding/hex"
	"fmt"
	"regexp"
	"strings"
)

func shaStr(s string) string {
	h := sha256.Sum256([]byte(s))
	return hex.EncodeToString(h[:])
}

// monitorC12 is evaluated on every simulated run of engine 1, whatever the workload: the
// command must return, with status 0 or 1, without panicking.
func monitorC12(w *World, r *Result) *Violation {
	switch {
	case r.Exit == -1:
		return &Violation{Property: "C12", Sig: "panic:" + panicSite(r.Panic), Detail: "the build command panicked\n" + r.Panic, Worlds: []*World{w}, Mode: "single", Expect: []string{digest(r)}}
	case r.Exit == -3:
		first := r.Panic
		if i := strings.Index(first, "fatal error:"); i >= 0 {
			first = first[i:]
		}
		if i := strings.Index(first, "\n"); i >= 0 {
			first = first[:i]
		}
		return &Violation{Property: "C12", Sig: "process-died:" + reDigits.ReplaceAllString(first, "N"), Detail: "the build process died\n" + r.Panic, Worlds: []*World{w}, Mode: "single", Expect: []string{digest(r)}}
	case r.Exit == -2:
		return &Violation{Property: "C12", Sig: "hang:" + w.Class, Detail: r.Panic, Worlds: []*World{w}, Mode: "single", Expect: []string{digest(r)}}
	case r.Race != "":
		return &Violation{Property: "C12", Sig: "data-race-in-the-build-process:" + raceFrames(r.Race), Detail: "the race detector reported during this build (goroutines of the tree touch shared state without synchronisation: a fault waiting to happen)\n" + r.Race, Worlds: []*World{w}, Mode: "single", Expect: []string{digest(r)}}
	case r.Exit != 0 && r.Exit != 1:
		return &Violation{Property: "C12", Sig: fmt.Sprintf("exit-status:%d", r.Exit), Detail: fmt.Sprintf("exit status %d is neither 0 nor 1", r.Exit), Worlds: []*World{w}, Mode: "single", Expect: []string{digest(r)}}
	}
	return nil
}

// panicSite extracts the first frame inside the project from a stack trace.
var reDigits = regexp.MustCompile(`-?[0-9]+`)

func panicSite(stack string) string {
	lines := strings.Split(stack, "\n")
	msg := ""
	if len(lines) > 0 {
		msg = reDigits.ReplaceAllString(lines[0], "N")
		if len(msg) > 60 {
			msg = msg[:60]
		}
	}
	for _, l := range lines {
		l = strings.TrimSpace(l)
		if strings.HasPrefix(l, "github.com/gontainer/gontainer/") || strings.HasPrefix(l, "main.") {
			if strings.Contains(l, "verifsim") || strings.HasPrefix(l, "main.main") {
				continue
			}
			if i := strings.Index(l, "("); i > 0 {
				l = l[:i]
			}
			return strings.TrimPrefix(l, "github.com/gontainer/gontainer/") + ":" + msg
		}
	}
	return msg
}

func init() {
	registerCheck("C12", CheckC12)
}

// fileContract are the clauses of the output-file contract C12 re-uses from C10.
var fileContract = map[string]bool{"exit0-without-output": true, "exit0-incomplete-output": true, "out-changed-on-failure": true, "input-modified": true}

func judgeC12(w *World, r *Result) *Violation {
	if v := monitorC12(w, r); v != nil {
		return v
	}
	if c, d := contract(w, r, r.Exit, nil); c != "" && fileContract[c] {
		return &Violation{Property: "C12", Sig: "file-contract:" + c, Detail: d, Worlds: []*World{w}, Mode: "c12", Expect: []string{digest(r)}}
	}
	return nil
}

func init() {
	replayModes["c12"] = func(t Target, v *Violation) (string, string) {
		r := Exec(t, v.Worlds[0])
		if nv := judgeC12(v.Worlds[0], r); nv != nil {
			return nv.Sig, nv.Detail
		}
		return "", ""
	}
}

var reRaceFrame = regexp.MustCompile(`(?m)^  ([A-Za-z0-9_./*()\-]+)\(\)$`)

// raceFrames names the first two frames inside the project.
func raceFrames(text string) string {
	var fr []string
	for _, m := range reRaceFrame.FindAllStringSubmatch(text, -1) {
		f := m[1]
		if !strings.Contains(f, "gontainer/gontainer/") {
			continue
		}
		f = f[strings.LastIndex(f, "/")+1:]
		dup := false
		for _, x := range fr {
			if x == f {
				dup = true
			}
		}
		if !dup {
			fr = append(fr, f)
		}
		if len(fr) == 2 {
			break
		}
	}
	return strings.Join(fr, "<->")
}
