package bsim

import (
	"crypto/sha256"
	"encoding/hex"
	"fmt"
	"strings"
)

func shaStr(s string) string {
	h := sha256.Sum256([]byte(s))
	return hex.EncodeToString(h[:])
}

// monitorC12 is evaluated on every simulated run of engine 1, whatever the workload: the
// command must return, with status 0 or 1, without panicking.
func monitorC12(w *World, r *Result) *Violation {
	switch {
	case r.Exit == -1:
		return &Violation{Property: "C12", Sig: "panic:" + panicSite(r.Panic), Detail: "the build command panicked\n" + r.Panic, Worlds: []*World{w}, Mode: "single", Expect: []string{digest(r)}}
	case r.Exit == -2:
		return &Violation{Property: "C12", Sig: "hang:" + w.Class, Detail: r.Panic, Worlds: []*World{w}, Mode: "single", Expect: []string{digest(r)}}
	case r.Exit != 0 && r.Exit != 1:
		return &Violation{Property: "C12", Sig: fmt.Sprintf("exit-status:%d", r.Exit), Detail: fmt.Sprintf("exit status %d is neither 0 nor 1", r.Exit), Worlds: []*World{w}, Mode: "single", Expect: []string{digest(r)}}
	}
	return nil
}

// panicSite extracts the first frame inside the project from a stack trace.
func panicSite(stack string) string {
	lines := strings.Split(stack, "\n")
	msg := ""
	if len(lines) > 0 {
		msg = lines[0]
		if len(msg) > 60 {
			msg = msg[:60]
		}
	}
	for _, l := range lines {
		l = strings.TrimSpace(l)
		if strings.HasPrefix(l, "github.com/gontainer/gontainer/") || strings.HasPrefix(l, "main.") {
			if strings.Contains(l, "verifsim") || strings.HasPrefix(l, "main.main") {
				continue
			}
			if i := strings.Index(l, "("); i > 0 {
				l = l[:i]
			}
			return strings.TrimPrefix(l, "github.com/gontainer/gontainer/") + ":" + msg
		}
	}
	return msg
}
