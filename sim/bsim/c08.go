package bsim

import (
	"fmt"
	"path/filepath"
	"regexp"
	"sort"
	"strings"

	"verifsim/choice"
	"verifsim/simrt"
)

// Violation is what a check reports; Sig identifies the specific failing thing (not the
// property) so that known findings can be matched narrowly.
type Violation struct {
	Property string   `json:"property"`
	Sig      string   `json:"sig"`
	Detail   string   `json:"detail"`
	Worlds   []*World `json:"worlds"`            // worlds to execute on replay (base first)
	Mode     string   `json:"mode"`              // how the worlds are compared on replay
	Choices  []int    `json:"choices,omitempty"` // minimised draw sequence that regenerates the case
	Seed     uint64   `json:"seed"`
	Index    int      `json:"index"`
	Expect   []string `json:"expect,omitempty"` // digests of the results seen when the violation was found
	Gen      int      `json:"gen,omitempty"`    // C19: generation (2 = tool rebuilt with the regenerated file)
	Ref      string   `json:"ref,omitempty"`    // C19 generation 2: the generation-1 output (version line stripped)
}

func digest(r *Result) string {
	// the absolute input root carries the name of this process's private directory: not part of the outcome
	so := strings.ReplaceAll(r.Stdout, absRoot(), "$ABSROOT")
	return fmt.Sprintf("exit=%d out=%v/%s/%o stdout=%s", r.Exit, r.Out.Exists, short(r.Out.Sha), r.Out.Mode, short(shaStr(so)))
}

func short(s string) string {
	if len(s) > 12 {
		return s[:12]
	}
	return s
}

// diff names the artefacts in which two runs differ.
func diff(a, b *Result, outOnly bool) []string {
	var d []string
	if a.Exit != b.Exit {
		d = append(d, "exit")
	}
	if !outOnly && a.Stdout != b.Stdout {
		d = append(d, "stdout")
	}
	if !a.Out.Same(b.Out) {
		d = append(d, "out")
	}
	return d
}

// C08Stats is accumulated over a batch.
type Stats struct {
	Worlds      int            `json:"worlds"`
	Builds      int            `json:"builds"`
	Classes     map[string]int `json:"classes"`
	Exit        map[string]int `json:"exit"`
	Dims        map[string]int `json:"dims"`         // twin dimensions exercised
	SitesMulti  map[string]int `json:"sites_multi"`  // map sites that saw >=2 keys
	SitesPerm   map[string]int `json:"sites_perm"`   // ... and were actually permuted
	FaultsFired map[string]int `json:"faults_fired"` // op:kind -> count
	OpsSeen     map[string]int `json:"ops_seen"`
	WorldUse    map[string]int `json:"world_use"`
	Probes      map[string]int `json:"probes"`
	Distinct    map[string]int `json:"-"`
	Samples     []any          `json:"samples"`
	Panics      int            `json:"panics"`
	Hangs       int            `json:"hangs"`
	SlowBuilds  int            `json:"slow_builds"`
	MaxMs       float64        `json:"max_ms"`
	SimOps      int            `json:"sim_ops"`
	SimMs       int64          `json:"sim_ms"`
	turnSet     map[string]bool
}

func NewStats() *Stats {
	return &Stats{Classes: map[string]int{}, Exit: map[string]int{}, Dims: map[string]int{}, SitesMulti: map[string]int{},
		SitesPerm: map[string]int{}, FaultsFired: map[string]int{}, OpsSeen: map[string]int{}, WorldUse: map[string]int{},
		Probes: map[string]int{}, Distinct: map[string]int{}}
}

func (s *Stats) note(w *World, r *Result) {
	s.Builds++
	s.Exit[fmt.Sprint(r.Exit)]++
	for site, st := range r.Sites {
		if st.Multi > 0 {
			s.SitesMulti[site] += st.Multi
		}
		if st.Permuted > 0 {
			s.SitesPerm[site] += st.Permuted
		}
	}
	for _, f := range r.Fired {
		s.FaultsFired[f.OpKind+":"+f.Kind]++
	}
	for _, o := range r.Ops {
		s.OpsSeen[o.Kind]++
	}
	s.SimOps += len(r.Ops)
	s.SimMs += r.SimMs
	if r.Turns != "" {
		if s.turnSet == nil {
			s.turnSet = map[string]bool{}
		}
		s.Probes["concurrent-executions-(several-processes)"]++
		if !s.turnSet[r.Turns] {
			s.turnSet[r.Turns] = true
			s.Probes["distinct-interleavings-of-the-processes'-file-operations"]++
		}
	}
	for k, v := range r.WorldUse {
		s.WorldUse[k] += v
	}
	if r.DurMs > s.MaxMs {
		s.MaxMs = r.DurMs
	}
	if r.DurMs > 1000 {
		s.SlowBuilds++
	}
	if r.Exit == -1 {
		s.Panics++
	}
	if r.Exit == -2 {
		s.Hangs++
	}
	if len(r.Stray) > 0 {
		s.Probes["runs-leaving-stray-files"]++
	}
}

func worldShape(w *World, r *Result) string {
	nsites := 0
	for _, st := range r.Sites {
		if st.Multi > 0 {
			nsites++
		}
	}
	return fmt.Sprintf("%s|f%d|p%d|%s|%s|exit%d|ops%d|sites%d|%s", w.Class, len(w.Files), len(w.Patterns), w.OutKind,
		strings.Join(w.Flags, ","), r.Exit, len(r.Ops), nsites, short(shaStr(r.Stdout)))
}

var envNoise = [][2]string{{"LANG", "de_DE.UTF-8"}, {"LC_ALL", "C"}, {"TZ", "Asia/Tokyo"}, {"TZ", "America/New_York"}, {"TZ", "Australia/Lord_Howe"}, {"NO_COLOR", "1"}, {"TERM", "dumb"}, {"TERM", "xterm-256color"},
	{"USER", "someone"}, {"COLUMNS", "132"}, {"LINES", "50"}, {"GOPATH", "/nonexistent/gopath"}, {"GOFLAGS", "-mod=mod -trimpath"},
	{"EDITOR", "vi"}, {"GOMAXPROCS", "1"}, {"GOMAXPROCS", "3"}, {"GODEBUG", "randautoseed=0"}, {"CI", "true"}, {"DEBUG", "1"}, {"GONTAINER_DEBUG", "1"}, {"FORCE_COLOR", "1"}, {"CLICOLOR_FORCE", "1"}, {"HOME", "/nonexistent/home"}, {"TMPDIR", "/nonexistent/tmp"}, {"TMPDIR", ""}}

// twinsC08 builds the perturbed siblings of w. Each differs from w only in dimensions the
// property declares irrelevant. envReads are the variables the base run was seen reading.
func twinsC08(src *choice.Src, w *World, envReads []string) (tw []*World, dims []string) {
	add := func(dim string, t *World) { tw = append(tw, t); dims = append(dims, dim) }
	// the very same world again: anything the simulation does not control (goroutines of the tree,
	// real time, addresses) shows here first
	add("repeat", w.Clone())
	for i := 0; i < 2; i++ {
		t := w.Clone()
		t.MapSeed = seed64(src, "twin.map")
		add("map", t)
	}
	{
		t := w.Clone()
		t.ListSeed = seed64(src, "twin.list")
		add("listing", t)
	}
	{
		t := w.Clone()
		t.Env = map[string]string{}
		n := src.Range("twin.nenv", 1, 5)
		for i := 0; i < n; i++ {
			kv := choice.Pick(src, "twin.env", envNoise)
			t.Env[kv[0]] = kv[1]
		}
		seen := map[string]bool{}
		for _, k := range envReads {
			if k != "*" && !seen[k] && !strings.HasPrefix(k, "VERIFSIM_") {
				seen[k] = true
				t.Env[k] = choice.Pick(src, "twin.envread", []string{"1", "100", "true", "x", "/tmp/elsewhere"})
			}
		}
		if src.Chance("twin.nogo", 1, 3) {
			t.NoGo = !w.NoGo
		}
		add("env", t)
	}
	{
		t := w.Clone()
		t.CwdSub = choice.Pick(src, "twin.cwd", []string{"x", "deep/er/still", "a b", "proj[1]", "we*rd", "q?", "back\\slash", "$HOME"})
		t.CwdGo = src.Bool("twin.cwdgo")
		add("cwd", t)
	}
	{
		// some of the input files are symbolic links to files with the same bytes
		t := w.Clone()
		n := 0
		for i := range t.Files {
			if t.Files[i].Kind == "" && src.Chance("twin.link", 2, 3) {
				t.Files[i].Kind = "link"
				n++
			}
		}
		if n > 0 {
			add("linked-inputs", t)
		}
	}
	if w.OutKind == "file" && !w.AbsInputs && len(w.Faults) == 0 && src.Chance("twin.concurrent", 1, 6) {
		// another build of the same inputs runs at the same time in the same directory, writing next to
		// this one's -o (make -j, a file watcher): not an input of this run
		t := w.Clone()
		p := &World{OutKind: "file", Out: filepath.Join(filepath.Dir(w.Out), choice.Pick(src, "twin.peerout", []string{"zz_peer.go", "stub.go", "a_peer_out.go"})),
			Patterns: append([]string{}, w.Patterns...), Flags: append([]string{}, w.Flags...),
			MapSeed: seed64(src, "twin.peer.map"), ListSeed: seed64(src, "twin.peer.list"), RandSeed: seed64(src, "twin.peer.rand"),
			Clock: w.Clock, Pid: w.Pid + 7, Host: w.Host, Version: w.Version, Commit: w.Commit, Date: w.Date, Dirty: w.Dirty, Env: w.Env, NoGo: w.NoGo}
		if src.Chance("twin.peer.sameout", 1, 3) {
			// the very same command a second time (a watcher firing twice): same -o, same bytes
			p.Out, p.PreOut = w.Out, w.PreOut
		} else if src.Bool("twin.peer.stub") && !w.HasFlag("--stub") {
			p.Flags = append(p.Flags, "--stub")
		}
		t.Peers = []*World{p}
		t.SchedSeed = seed64(src, "twin.sched")
		add("concurrent-peer", t)
	}
	{
		t := w.Clone()
		t.StrayConfigs = true
		add("stray-configs-around", t)
	}
	{
		t := w.Clone()
		t.GoSeed = seed64(src, "twin.goseed") | 1
		add("goroutine-schedule", t)
	}
	{
		t := w.Clone()
		t.ArgStyle = 1 + src.Draw("twin.argstyle", 3)
		add("command-line-spelling", t)
	}
	{
		t := w.Clone()
		t.SlowSeed = seed64(src, "twin.slow") | 1
		add("latency", t)
	}
	{
		t := w.Clone()
		t.MetaSeed = seed64(src, "twin.meta") | 1
		add("file-metadata", t)
	}
	{
		t := w.Clone()
		t.Clock = w.Clock + int64(1+src.Draw("twin.clock", 1<<26))
		t.RandSeed = seed64(src, "twin.rand")
		t.Pid = w.Pid + 1 + src.Draw("twin.pid", 1000)
		t.Host = w.Host + "-b"
		add("clock", t)
	}
	return
}

// CaseResult is what one generated case produced.
type CaseResult struct {
	V *Violation
}

// GenC08 regenerates the world of a C08 case from a draw sequence; keySeed (not drawn)
// decides the YAML key order so that a key-order twin shares all draws.
func genC08World(src *choice.Src, keySeed uint64) *World {
	o := WOpts{Defects: true, LayoutFault: true, Flags: true, Fake: true}
	o.DotPkg = src.Chance("swarm.dotpkg", 1, 40)
	if src.Chance("swarm.nodefects", 1, 3) {
		o.Defects = false
	}
	if src.Chance("swarm.nolayout", 1, 2) {
		o.LayoutFault = false
	}
	o.Big = src.Chance("swarm.big", 1, 6)
	o.AbsPatterns = src.Chance("swarm.abs", 1, 6)
	w := genWorldKeyed(src, o, keySeed)
	if src.Chance("swarm.fault", 1, 5) {
		// the same fault in the base run and in every twin: a failing run's report must be as
		// deterministic as a successful one. The fault is sprayed over all operation indices, so it
		// fires on the first operation of its kind.
		menu := []simrt.Fault{{OpKind: "create-temp", Kind: "EACCES"}, {OpKind: "create-temp", Kind: "ENOSPC"}, {OpKind: "open-w", Kind: "EACCES"},
			{OpKind: "write", Kind: "ENOSPC", Arg: 7}, {OpKind: "close-w", Kind: "EIO"}, {OpKind: "rename", Kind: "EXDEV"}, {OpKind: "open-r", Kind: "EIO"}, {OpKind: "read", Kind: "EIO", Arg: 3}}
		f := choice.Pick(src, "swarm.faultkind", menu)
		for at := 0; at < 96; at++ {
			g := f
			g.At = at
			w.Faults = append(w.Faults, g)
		}
		w.Class += "+fault:" + f.OpKind + ":" + f.Kind
	}
	return w
}

// CheckC08 generates one world, runs it with its twins and compares. st may be nil.
func CheckC08(t Target, src *choice.Src, st *Stats) *Violation {
	start := len(src.Log)
	w := genC08World(src, 0)
	genDraws := append([]int{}, src.Values()[start:]...)
	base := Exec(t, w)
	if st != nil {
		st.Worlds++
		st.Classes[w.Class]++
		st.note(w, base)
		st.Distinct[worldShape(w, base)]++
		if len(st.Samples) < 3 {
			st.Samples = append(st.Samples, map[string]any{"class": w.Class, "patterns": w.Patterns, "files": fileNames(w), "out": w.Out, "flags": w.Flags,
				"exit": base.Exit, "twins": []string{"map", "map", "listing", "env", "cwd", "clock", "keyorder"}, "first_file": firstLines(w, 14)})
		}
	}
	if monitorC12(w, base) != nil {
		// a crash is C12's to report; twins of a crashed run mean nothing
		if st != nil {
			st.Probes["c12-monitor-fired"]++
		}
		return nil
	}
	tw, dims := twinsC08(src, w, base.EnvReads)
	for i, t2 := range tw {
		r2 := Exec(t, t2)
		if st != nil {
			st.note(t2, r2)
			st.Dims[dims[i]]++
		}
		if d := diff(base, r2, false); len(d) > 0 {
			sig, detail := attribute(t, w, t2, base, dims[i], d)
			if usesDotSelector(w) {
				// trigger is part of the signature: goimports' environment scan for an unresolved selector base
				sig = "dotpkg|" + sig
			}
			return &Violation{Property: "C08", Sig: sig, Detail: detail, Worlds: []*World{w, t2}, Mode: "twin-all",
				Expect: []string{digest(base), digest(r2)}, Choices: genDraws}
		}
	}
	// run-from twin: the same files, the command started from another directory with every path
	// respelled; the report echoes the spellings, so only exit status and the -o file are compared
	if !w.AbsInputs && !filepath.IsAbs(w.Out) {
		rw := w.Clone()
		rw.RunFrom = choice.Pick(src, "twin.runfrom", []string{"elsewhere", "a/b"})
		rr := Exec(t, rw)
		if st != nil {
			st.note(rw, rr)
			st.Dims["run-from-other-directory"]++
		}
		if d := diff(base, rr, true); len(d) > 0 {
			return &Violation{Property: "C08", Sig: "run-from:" + strings.Join(d, "+"), Detail: "starting the command from another directory (same files, paths respelled) changed " + strings.Join(d, "+") + "\n" + explain(base, rr),
				Worlds: []*World{w, rw}, Mode: "twin-out", Expect: []string{digest(base), digest(rr)}, Choices: genDraws}
		}
	}
	// directory-noise twin: unrelated files next to -o (editor backups, a temporary file left by a
	// killed run, ...) are nobody's input
	if w.OutKind == "file" && len(w.Faults) == 0 {
		nw := w.Clone()
		dir, b := filepath.Dir(w.Out), filepath.Base(w.Out)
		junk := strings.Repeat("// left behind by something else\n", 2000)
		for _, n := range []string{"." + b + ".tmp", b + ".tmp", b + "~", "." + b + ".swp", b + ".bak", "." + b + ".tmp0"} {
			nw.Files = append(nw.Files, InFile{Path: filepath.Join(dir, n), Content: junk})
		}
		nr := Exec(t, nw)
		if st != nil {
			st.note(nw, nr)
			st.Dims["unrelated-files-next-to-output"]++
		}
		if d := diff(base, nr, false); len(d) > 0 {
			return &Violation{Property: "C08", Sig: "dir-noise:" + strings.Join(d, "+"), Detail: "unrelated files in the output directory changed " + strings.Join(d, "+") + "\n" + explain(base, nr),
				Worlds: []*World{w, nw}, Mode: "twin-all", Expect: []string{digest(base), digest(nr)}, Choices: genDraws}
		}
	}
	// aliased inputs: some input files exist a second time under another name with the same bytes - once as
	// copies, once as hard links / symbolic links to the first name. The ordered list of (name, content)
	// pairs is the same in both worlds
	if len(w.Faults) == 0 && src.Chance("twin.alias", 1, 5) {
		mk := func(kind string) *World {
			a := w.Clone()
			n := len(a.Files)
			for i := 0; i < n; i++ {
				f := a.Files[i]
				if f.Kind != "" || !strings.HasSuffix(f.Path, ".yaml") {
					continue
				}
				again := strings.TrimSuffix(f.Path, ".yaml") + "_again.yaml"
				nf := InFile{Path: again, Content: f.Content}
				if kind != "" {
					nf.Kind, nf.LinkTo = kind, f.Path
				}
				a.Files = append(a.Files, nf)
				if !matchedByAny(a.Patterns, again) {
					a.Patterns = append(a.Patterns, again)
				}
			}
			return a
		}
		cw, lw := mk(""), mk(choice.Pick(src, "twin.alias.kind", []string{"hardlink", "symlink-to"}))
		cr, lr := Exec(t, cw), Exec(t, lw)
		if st != nil {
			st.note(cw, cr)
			st.note(lw, lr)
			st.Dims["aliased-inputs"]++
		}
		if d := diff(cr, lr, false); len(d) > 0 {
			return &Violation{Property: "C08", Sig: "aliased-inputs:" + strings.Join(d, "+"), Detail: "the same (name, content) pairs, once as copies and once as links to one file, gave different " + strings.Join(d, "+") + "\n" + explain(cr, lr),
				Worlds: []*World{cw, lw}, Mode: "twin-all", Expect: []string{digest(cr), digest(lr)}, Choices: genDraws}
		}
	}
	// previous-output twin: -o already holds what the same configuration generated under another
	// build info (only the version line differs): the bytes written must not depend on that
	if base.Exit == 0 && w.OutKind == "file" && base.Out.Exists && len(w.Faults) == 0 {
		pw := w.Clone()
		pw.PreOut = &InFile{Path: w.Out, Content: replaceVersionLine(base.Out.Data, "// gontainer version: some-other-build 0000000 (build date 2001-01-01T00:00:00Z)"), Mode: 0644}
		rp := Exec(t, pw)
		if st != nil {
			st.note(pw, rp)
			st.Dims["previous-output"]++
		}
		if rp.Exit != base.Exit || rp.Out.Sha != base.Out.Sha {
			return &Violation{Property: "C08", Sig: "previous-output:out", Detail: "the generated file depends on what the -o path held before (the previous generation of the same configuration by another build)\n" + explain(base, rp),
				Worlds: []*World{w, pw}, Mode: "twin-out", Expect: []string{digest(base), digest(rp)}, Choices: genDraws}
		}
	}
	// ... or what `build --stub` of the same configuration left there (stub, then the real thing, at one path)
	if base.Exit == 0 && w.OutKind == "file" && base.Out.Exists && len(w.Faults) == 0 && !w.HasFlag("--stub") && src.Chance("twin.afterstub", 1, 3) {
		sw := w.Clone()
		sw.PreOut = nil
		sw.Flags = append(sw.Flags, "--stub")
		sr := Exec(t, sw)
		if st != nil {
			st.note(sw, sr)
		}
		if sr.Exit == 0 && sr.Out.Exists {
			pw := w.Clone()
			pw.PreOut = &InFile{Path: w.Out, Content: sr.Out.Data, Mode: 0644}
			rp := Exec(t, pw)
			if st != nil {
				st.note(pw, rp)
				st.Dims["previous-output-is-a-stub"]++
			}
			if rp.Exit != base.Exit || rp.Out.Sha != base.Out.Sha {
				return &Violation{Property: "C08", Sig: "previous-output:out:after-a-stub", Detail: "the generated file depends on what the -o path held before (the stub of the same configuration)\n" + explain(base, rp),
					Worlds: []*World{w, pw}, Mode: "twin-out", Expect: []string{digest(base), digest(rp)}, Choices: genDraws}
			}
		}
	}
	// key order twin: same draws, different key order in every mapping of every file
	kw := genC08World(choice.Replay(genDraws), seed64(src, "twin.keyseed"))
	kw.MapSeed, kw.ListSeed, kw.Clock, kw.RandSeed, kw.Pid, kw.Host, kw.Version = w.MapSeed, w.ListSeed, w.Clock, w.RandSeed, w.Pid, w.Host, w.Version
	rk := Exec(t, kw)
	if st != nil {
		st.note(kw, rk)
		st.Dims["keyorder"]++
	}
	if d := diff(base, rk, true); len(d) > 0 {
		return &Violation{Property: "C08", Sig: "keyorder:" + strings.Join(d, "+") + ":" + w.Class, Detail: "re-ordering YAML mapping keys changed " + strings.Join(d, "+") + "\n" + explain(base, rk),
			Worlds: []*World{w, kw}, Mode: "twin-out", Expect: []string{digest(base), digest(rk)}, Choices: genDraws}
	}
	return nil
}

var reDotSel = regexp.MustCompile(`\\"\.\\"\.[A-Za-z_][A-Za-z0-9_]*\.[A-Za-z_]`)

// usesDotSelector: some value refers to a field of a variable of the current package (".".Var.Field).
func usesDotSelector(w *World) bool {
	for _, f := range w.Files {
		if reDotSel.MatchString(f.Content) {
			return true
		}
	}
	return false
}

func fileNames(w *World) []string {
	var n []string
	for _, f := range w.Files {
		n = append(n, f.Path)
	}
	return n
}

func firstLines(w *World, n int) string {
	if len(w.Files) == 0 {
		return ""
	}
	ls := strings.Split(w.Files[0].Content, "\n")
	if len(ls) > n {
		ls = ls[:n]
	}
	return strings.Join(ls, "\n")
}

func explain(a, b *Result) string {
	var sb strings.Builder
	fmt.Fprintf(&sb, "A: %s\nB: %s\n", digest(a), digest(b))
	if a.Stdout != b.Stdout {
		la, lb := strings.Split(a.Stdout, "\n"), strings.Split(b.Stdout, "\n")
		for i := 0; i < len(la) || i < len(lb); i++ {
			var x, y string
			if i < len(la) {
				x = la[i]
			}
			if i < len(lb) {
				y = lb[i]
			}
			if x != y {
				fmt.Fprintf(&sb, "stdout line %d:\n  A: %s\n  B: %s\n", i+1, x, y)
				break
			}
		}
	}
	if a.Out.Data != b.Out.Data {
		la, lb := strings.Split(a.Out.Data, "\n"), strings.Split(b.Out.Data, "\n")
		for i := 0; i < len(la) || i < len(lb); i++ {
			var x, y string
			if i < len(la) {
				x = la[i]
			}
			if i < len(lb) {
				y = lb[i]
			}
			if x != y {
				fmt.Fprintf(&sb, "-o line %d:\n  A: %s\n  B: %s\n", i+1, x, y)
				break
			}
		}
	}
	return sb.String()
}

// attribute narrows a divergence down to the responsible seam: a single map site, a single
// environment variable, the cwd, the listing order or the clock/random/pid/host group.
func attribute(t Target, w, tw *World, base *Result, dim string, d []string) (sig, detail string) {
	art := strings.Join(d, "+")
	r2 := Exec(t, tw)
	detail = explain(base, r2)
	switch dim {
	case "map":
		var sites []string
		for s, st := range base.Sites {
			if st.Multi > 0 {
				sites = append(sites, s)
			}
		}
		sort.Strings(sites)
		var resp []string
		for _, s := range sites {
			x := w.Clone()
			x.AltSeed, x.AltSites = tw.MapSeed, []string{s}
			if len(diff(base, Exec(t, x), false)) > 0 {
				resp = append(resp, s)
			}
		}
		if len(resp) == 0 {
			// not a single site: try a few more alternative seeds per site before giving up
			for _, s := range sites {
				for k := uint64(1); k <= 8 && len(resp) == 0; k++ {
					x := w.Clone()
					x.AltSeed, x.AltSites = choice.Mix(tw.MapSeed, k), []string{s}
					if len(diff(base, Exec(t, x), false)) > 0 {
						resp = append(resp, s)
					}
				}
			}
		}
		if len(resp) == 0 {
			return "map:multi-site:" + art, detail
		}
		return "map:" + strings.Join(resp, ",") + ":" + art, detail + "responsible map-iteration site(s): " + strings.Join(resp, ", ") + "\n"
	case "env":
		var resp []string
		keys := make([]string, 0, len(tw.Env))
		for k := range tw.Env {
			keys = append(keys, k)
		}
		sort.Strings(keys)
		for _, k := range keys {
			x := w.Clone()
			x.Env = map[string]string{k: tw.Env[k]}
			if len(diff(base, Exec(t, x), false)) > 0 {
				resp = append(resp, k)
			}
		}
		if tw.NoGo != w.NoGo {
			x := w.Clone()
			x.NoGo = tw.NoGo
			if len(diff(base, Exec(t, x), false)) > 0 {
				resp = append(resp, "PATH(go)")
			}
		}
		if len(resp) == 0 {
			return "env:combination:" + art, detail
		}
		return "env:" + strings.Join(resp, ",") + ":" + art, detail + "responsible environment variable(s): " + strings.Join(resp, ", ") + "\n"
	}
	return dim + ":" + art, detail
}

func replaceVersionLine(src, line string) string {
	ls := strings.Split(src, "\n")
	for i, l := range ls {
		if strings.HasPrefix(l, "// gontainer version:") {
			ls[i] = line
		}
	}
	return strings.Join(ls, "\n")
}
