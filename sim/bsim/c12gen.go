package bsim

import (
	"fmt"
	"strings"

	"verifsim/choice"
	"verifsim/gen"
	"verifsim/simrt"
)

// CheckC12 draws a world from one of the input families of DESIGN.md (C12) and monitors the
// run: it must return, with status 0 or 1, without panic, within the budget, obeying the
// output-file contract.
func CheckC12(t Target, src *choice.Src, st *Stats) *Violation {
	var w *World
	fam := src.Draw("c12.family", 13)
	name := ""
	switch fam {
	case 0, 1:
		name = "generic"
		w = GenWorld(src, WOpts{Defects: true, LayoutFault: true, Flags: true, Fake: true, KeyPerm: true, Big: src.Chance("big", 1, 3)})
	case 2, 3:
		name = "kind-confusion-storm"
		w = GenWorld(src, WOpts{Defects: src.Bool("stormdef"), Flags: true, Fake: true, Storm: true, KeyPerm: true})
	case 4, 5:
		name = "read-corruption"
		w = GenWorld(src, WOpts{Flags: true, Fake: src.Bool("fake")})
		// one corruption (what a reader racing a writer, or a bad sector, delivers) on one read
		nreads := len(w.Files) * 2
		w.Faults = append(w.Faults, simrt.Fault{At: src.Draw("corrupt.at", nreads*4+4), OpKind: "corrupt",
			Kind: choice.Pick(src, "corrupt.kind", corruptKinds), Arg: src.Draw("corrupt.arg", 1<<14)})
		// faults address operations by index: spray the same corruption over every plausible open-r index
		f := w.Faults[0]
		w.Faults = nil
		for at := 0; at < nreads*4+8; at++ {
			if src.Chance("corrupt.spray", 1, 3) {
				g := f
				g.At = at
				w.Faults = append(w.Faults, g)
			}
		}
	case 6:
		name = "byte-mutation"
		w = GenWorld(src, WOpts{Flags: true, Fake: src.Bool("fake"), Defects: src.Bool("def")})
		if src.Chance("linebreaks", 1, 4) {
			// other line-break conventions (CR only, NEL, LS, PS, CRLF), in files with and without defects, plus
			// values that look like fragments of a diagnostic
			name = "line-breaks"
			brk := choice.Pick(src, "linebreak", []string{"\r", "\u0085", "\u2028", "\u2029", "\r\n", "\n\r"})
			for i := range w.Files {
				if src.Chance("linebreak.file", 2, 3) {
					c := strings.ReplaceAll(w.Files[i].Content, "\n", brk)
					if src.Bool("linebreak.bad") {
						c += brk + "services: {x: {scope: \"line 40: shared\", todo: [line 7: x]}}" + brk + "parameters: [" + brk
					}
					w.Files[i].Content = c
				}
			}
		} else {
			mutateBytes(src, w)
		}
	case 7:
		name = "pathological-names"
		w = pathologicalWorld(src)
	case 8:
		name = "layered-graph"
		w = layeredWorld(src)
	case 11:
		name = "duplicated-declarations"
		// every file once more under another name (each service, call, tag, parameter and decorator is
		// declared twice, identically - also the malformed ones a storm produced)
		w = GenWorld(src, WOpts{Flags: true, Fake: src.Bool("fake"), Storm: src.Bool("storm"), Defects: src.Chance("def", 1, 3)})
		n := len(w.Files)
		for i := 0; i < n; i++ {
			f := w.Files[i]
			if strings.HasSuffix(f.Path, ".yaml") {
				w.Files = append(w.Files, InFile{Path: strings.TrimSuffix(f.Path, ".yaml") + "_again.yaml", Content: f.Content})
				if !strings.ContainsAny(strings.Join(w.Patterns, " "), "*?[") {
					w.Patterns = append(w.Patterns, strings.TrimSuffix(f.Path, ".yaml")+"_again.yaml")
				}
			}
		}
	case 10:
		name = "many-files"
		w = manyFilesWorld(src)
	case 12:
		name = "merge-keys"
		w = mergeKeyWorld(src)
	case 9:
		name = "error-read-faults"
		w = GenWorld(src, WOpts{Flags: true, LayoutFault: true, Defects: src.Bool("def")})
		if src.Chance("persistent", 1, 4) {
			// a condition that does not go away: every operation of one kind fails for the whole run
			pk := choice.Pick(src, "persist.kind", [][2]string{{"rename", "EBUSY"}, {"rename", "ETXTBSY"}, {"create-temp", "EAGAIN"}, {"open-r", "EINTR"}, {"write", "EAGAIN"}, {"stat", "EIO"}, {"remove", "EBUSY"}, {"close-w", "EINTR"}})
			w.Persist = &simrt.Fault{OpKind: pk[0], Kind: pk[1]}
		}
		n := src.Range("nf", 1, 3)
		for i := 0; i < n; i++ {
			ok := choice.Pick(src, "fop", []string{"open-r", "read", "open-w", "write", "close-w", "close-r", "stat", "stat", "rename", "create-temp"})
			ks := faultKinds[ok]
			w.Faults = append(w.Faults, simrt.Fault{At: src.Draw("fat", 24), OpKind: ok, Kind: choice.Pick(src, "fk", ks), Arg: src.Draw("farg", 4000)})
		}
	}
	w.Class = name + "|" + w.Class
	r := Exec(t, w)
	if st != nil {
		st.Worlds++
		st.Classes[name]++
		st.note(w, r)
		st.Distinct[worldShape(w, r)]++
		if len(st.Samples) < 4 && (fam == 2 || fam == 6 || fam == 7) {
			st.Samples = append(st.Samples, map[string]any{"family": name, "patterns": w.Patterns, "files": fileNames(w), "flags": w.Flags, "exit": r.Exit, "first_file": firstLines(w, 12)})
		}
	}
	if hasErrnoFault(r) {
		// with error faults in play C10's relaxations apply: only the process-level monitors are judged here
		return monitorC12(w, r)
	}
	return judgeC12(w, r)
}

func hasErrnoFault(r *Result) bool {
	for _, f := range r.Fired {
		if f.OpKind != "corrupt" {
			return true
		}
	}
	return false
}

var nasty = []string{"&a ", "*a", "<<: ", "!!binary ", "!!map ", "? ", "- ", ": ", "{", "}", "[", "]", ",", "#", "|", ">", "%", "@", "`", "\t", "\x00", "\xef\xbb\xbf", "\xff\xfe", " ",
	"---\n", "...\n", "\r\n", "%YAML 1.2\n", "!", "~", "null", "0o17", "1e999", "\"", "'", "\\", "%env(", "%%", "%todo(", "!value ", "!tagged ", "@", "$gontainer"}

// mutateBytes applies 1-6 byte-level edits (delete / insert / duplicate / overwrite) to one input file.
func mutateBytes(src *choice.Src, w *World) {
	if len(w.Files) == 0 {
		return
	}
	fi := src.Draw("mb.file", len(w.Files))
	b := []byte(w.Files[fi].Content)
	n := src.Range("mb.n", 1, 6)
	for i := 0; i < n && len(b) > 0; i++ {
		at := src.Draw("mb.at", len(b))
		switch src.Draw("mb.op", 5) {
		case 0:
			l := src.Range("mb.len", 1, 40)
			if at+l > len(b) {
				l = len(b) - at
			}
			b = append(b[:at], b[at+l:]...)
		case 1:
			ins := choice.Pick(src, "mb.ins", nasty)
			b = append(b[:at], append([]byte(ins), b[at:]...)...)
		case 2:
			l := src.Range("mb.len", 1, 60)
			if at+l > len(b) {
				l = len(b) - at
			}
			b = append(b[:at+l], append(append([]byte{}, b[at:at+l]...), b[at+l:]...)...)
		case 3:
			b[at] = byte(src.Draw("mb.byte", 256))
		case 4:
			b = b[:at]
		}
	}
	w.Files[fi].Content = string(b)
	w.Class += "+bytes"
}

func longName(src *choice.Src, n int) string {
	var sb strings.Builder
	alphabet := "abcdefghijklmnopqrstuvwxyzABCDEFGHIJKLMNOPQRSTUVWXYZ0123456789"
	sb.WriteByte('n')
	for sb.Len() < n {
		sb.WriteByte(alphabet[src.Draw("ln", len(alphabet))])
	}
	return sb.String()
}

// mergeKeyWorld: anchors, aliases and YAML merge keys ("<<") in the schema positions of a
// configuration: a mapping that merges itself, mutual merges, and chains in which every mapping merges
// its predecessor twice (linear to write, exponential to expand naively). The YAML library refuses or
// bounds all of these; whatever looks at the document before or besides it has to as well.
func mergeKeyWorld(src *choice.Src) *World {
	w := &World{OutKind: "file", Out: "gen.go", Class: "merge-keys"}
	var sb strings.Builder
	n := src.Range("mk.n", 2, 60)
	where := src.Draw("mk.where", 4)
	switch src.Draw("mk.kind", 5) {
	case 0: // self merge
		switch where {
		case 0:
			sb.WriteString("services:\n  s: &s {todo: true, <<: *s}\n")
		case 1:
			sb.WriteString("meta: &m\n  pkg: main\n  <<: *m\n")
		case 2:
			sb.WriteString("services: &all\n  a: {todo: true}\n  <<: *all\n")
		default:
			sb.WriteString("&root\nparameters: {a: 1}\n<<: *root\n")
		}
	case 1: // every mapping merges its predecessor twice
		sb.WriteString("services:\n  s0: &s0 {todo: true}\n")
		for i := 1; i <= n; i++ {
			fmt.Fprintf(&sb, "  s%d: &s%d {<<: [*s%d, *s%d]}\n", i, i, i-1, i-1)
		}
	case 2: // the same, below meta / parameters
		sb.WriteString("parameters:\n  p0: &p0 {a: 1}\n")
		for i := 1; i <= n; i++ {
			fmt.Fprintf(&sb, "  p%d: &p%d {<<: *p%d, k%d: {<<: *p%d}}\n", i, i, i-1, i, i-1)
		}
	case 3: // merge of a sequence of aliases, of scalars, of nulls
		sb.WriteString("services:\n  base: &b {value: \"pkg.V\"}\n  x: {<<: [*b, *b, *b], tags: [t]}\n  y: {<<: ~}\n  z: {<<: 5}\n  w: {<<: [1, [*b]]}\n")
	case 4: // an ordinary, legal use: shared defaults merged into several services
		sb.WriteString("services:\n  defaults: &d {constructor: \"pkg.New\", tags: [t]}\n")
		for i := 0; i < n%7+1; i++ {
			fmt.Fprintf(&sb, "  svc%d: {<<: *d, arguments: [%d]}\n", i, i)
		}
		w.Class = "merge-keys-legal"
	}
	w.Files = []InFile{{Path: "conf/merge.yaml", Content: sb.String()}}
	w.Patterns = []string{"conf/*.yaml"}
	w.MapSeed, w.ListSeed = seed64(src, "mapseed"), seed64(src, "listseed")
	return w
}

// pathologicalWorld: very long identifiers, long file names, glob meta characters in file
// names and patterns, deep nesting.
func pathologicalWorld(src *choice.Src) *World {
	cfg := gen.GenCfg(src, gen.Opts{MaxParams: 3, MaxSvcs: 3, MaxDecs: 1})
	w := &World{OutKind: "file", Out: "gen.go", Class: "valid", Cfg: cfg}
	long := longName(src, choice.Pick(src, "longn", []int{64, 300, 1024, 4096}))
	switch src.Draw("patho.kind", 7) {
	case 0:
		cfg.Params = append(cfg.Params, gen.Param{Name: long, V: gen.Arg{Kind: "int", I: 1}})
	case 1:
		cfg.Services = append(cfg.Services, gen.Svc{Name: long, Value: `&"` + gen.FxPath + `".Node{}`, Getter: "Get" + long})
	case 2:
		cfg.Meta.Imports = append(cfg.Meta.Imports, gen.KV{K: long, V: "example.com/" + long})
		cfg.Services = append(cfg.Services, gen.Svc{Name: "viaLong", Ctor: long + ".New"})
	case 3:
		cfg.Params = append(cfg.Params, gen.Param{Name: "longpattern", V: gen.Arg{Kind: "raw", S: strings.Repeat("%%a", src.Range("rep", 10, 2000))}})
	case 4:
		cfg.Services = append(cfg.Services, gen.Svc{Name: "manyargs", Ctor: "pkg.New", Args: manyArgs(src.Range("nargs", 50, 600))})
	case 5:
		cfg.Params = append(cfg.Params, gen.Param{Name: "fnlong", V: gen.Arg{Kind: "raw", S: `%env("` + long + `", "` + long + `")%`}})
	case 6:
		cfg.Services = append(cfg.Services, gen.Svc{Name: "tagged", Value: "pkg.V", Tags: []gen.Tag{{Name: long}, {Name: "p", HasPrio: true, Prio: src.Range("prio", -1<<31, 1<<31-1)}}})
	}
	content := cfg.Y().Render(nil)
	if src.Chance("patho.bomb", 1, 6) {
		// anchors and aliases: legal YAML, exponential when expanded naively
		var sb strings.Builder
		sb.WriteString("parameters:\n  a0: &a0 [x, y]\n")
		n := src.Range("bomb.n", 3, 14)
		for i := 1; i <= n; i++ {
			fmt.Fprintf(&sb, "  a%d: &a%d [*a%d, *a%d, *a%d]\n", i, i, i-1, i-1, i-1)
		}
		content = sb.String()
		w.Class = "alias-bomb"
	} else if src.Chance("patho.deep", 1, 4) {
		depth := src.Range("depth", 10, 3000)
		content = "parameters:\n  deep: " + strings.Repeat("[", depth) + strings.Repeat("]", depth) + "\n"
		w.Class = "deep-nesting"
	}
	fname := choice.Pick(src, "patho.fname", []string{"a.yaml", longName(src, 60) + ".yaml", longName(src, 200) + ".yaml", "we[ird].yaml", "st*r.yaml", "q?.yaml", "sp ace.yaml", "back\\slash.yaml", "ünï.yaml", "-dash.yaml", "{b}.yaml"})
	dir := choice.Pick(src, "patho.dir", []string{"conf", "c[o]nf", longName(src, 100), "a/b/c/d/e/f"})
	w.Files = []InFile{{Path: dir + "/" + fname, Content: content}}
	w.Patterns = []string{choice.Pick(src, "patho.pat", []string{dir + "/*.yaml", dir + "/" + fname, "*/*.yaml", dir + "/*", "**/*.yaml", dir + "/[", dir + "/\\*.yaml", "*/" + fname, strings.Repeat("*/", 40) + "x", dir + "/{a,b}.yaml",
		"**/[z-a]*.yaml", dir + "/**/[]x.yaml", "**/[\\]", dir + "/**", "**", dir + "/[^a]*.yaml", dir + "/[a-", "**/*[[]*"})}
	if src.Bool("patho.second") {
		w.Patterns = append(w.Patterns, dir+"/*.yaml")
	}
	w.MapSeed, w.ListSeed = seed64(src, "mapseed"), seed64(src, "listseed")
	w.Class = "patho:" + w.Class
	return w
}

func manyArgs(n int) []gen.Arg {
	as := make([]gen.Arg, n)
	for i := range as {
		as[i] = gen.Arg{Kind: "int", I: int64(i)}
	}
	return as
}

// layeredWorld: an acyclic graph with many re-converging paths (hub -> a,b,c -> hub ...), up
// to 8 elementary cycles when cyc is drawn; bounded size. Any blow-up beyond the budget is a hang.
func layeredWorld(src *choice.Src) *World {
	layers := src.Range("layers", 4, 32)
	width := src.Range("width", 2, 4)
	cfg := &gen.Cfg{}
	fx := `"` + gen.FxPath + `"`
	hub := func(i int) string { return fmt.Sprintf("hub%d", i) }
	scopes := []string{"", "", "shared", "non_shared", "contextual"}
	topScope := choice.Pick(src, "topscope", scopes)
	for l := layers; l >= 0; l-- {
		h := gen.Svc{Name: hub(l), Ctor: fx + ".NewNode", Args: []gen.Arg{{Kind: "str", S: hub(l)}}}
		if l == 0 {
			h.Scope = topScope
		}
		if l < layers {
			for k := 0; k < width; k++ {
				mid := fmt.Sprintf("m%d_%d", l, k)
				ms := gen.Svc{Name: mid, Ctor: fx + ".NewNode", Args: []gen.Arg{{Kind: "str", S: mid}, {Kind: "svc", S: hub(l + 1)}}}
				if src.Chance("midtag", 1, 6) {
					ms.Tags = []gen.Tag{{Name: "layer"}}
				}
				cfg.Services = append(cfg.Services, ms)
				h.Args = append(h.Args, gen.Arg{Kind: "svc", S: mid})
			}
		}
		cfg.Services = append(cfg.Services, h)
	}
	cls := "layered"
	if src.Chance("cycles", 1, 3) {
		// one back edge from the bottom hub to the hub one layer up closes `width` (<= 4) elementary cycles
		from := cfg.Svc(hub(layers))
		from.Args = append(from.Args, gen.Arg{Kind: "svc", S: hub(layers - 1)})
		cls = "layered-cyclic"
	}
	if src.Chance("decor", 1, 4) {
		cfg.Decorators = append(cfg.Decorators, gen.Dec{Tag: "layer", Fn: fx + ".Decorate", Args: []gen.Arg{{Kind: "svc", S: hub(layers)}}})
	}
	w := &World{OutKind: "file", Out: "gen.go", Class: cls, Cfg: cfg}
	w.Files = []InFile{{Path: "g.yaml", Content: cfg.Y().Render(nil)}}
	w.Patterns = []string{"g.yaml"}
	w.MapSeed, w.ListSeed = seed64(src, "mapseed"), seed64(src, "listseed")
	return w
}

// manyFilesWorld: 5-24 input files under one or two patterns; a drawn share of them is broken in
// ways that make the YAML decoder report several errors per file (type mismatches in several
// schema positions), is unreadable, or is matched twice.
func manyFilesWorld(src *choice.Src) *World {
	n := src.Range("mf.n", 5, 24)
	if src.Chance("mf.huge", 1, 3) {
		n = src.Range("mf.nhuge", 25, 72)
	}
	brokenNum := choice.Pick(src, "mf.brokenshare", []int{0, 1, 2})
	w := &World{OutKind: "file", Out: "gen.go", Class: "many-files"}
	broken := []string{
		"parameters: 5\nservices: [1, 2]\ndecorators: {a: b}\nmeta: 7\n",
		"meta:\n  pkg: [1]\n  imports: 3\n  functions: [x]\n  default_must_getter: maybe\nservices: text\n",
		"services:\n  a:\n    arguments: 5\n    calls: 7\n    fields: [1]\n    tags: {x: y}\n    scope: 3\n    todo: perhaps\n",
		"services:\n  b:\n    getter: [x]\n    must_getter: 12\n    type: {a: 1}\n    value: [1]\n    constructor: {a: b}\n",
		"decorators:\n  - tag: [1]\n    decorator: {x: 1}\n    arguments: 5\n  - 7\n  - text\n",
		"version: [1, 2]\nparameters: [a, b]\nservices: 12\n",
	}
	good := "parameters:\n  p%d: %d\n"
	for i := 0; i < n; i++ {
		name := fmt.Sprintf("many/%02d_part.yaml", i)
		c := fmt.Sprintf(good, i, i)
		if src.Chance("mf.broken", brokenNum, 3) {
			c = choice.Pick(src, "mf.kind", broken)
		}
		w.Files = append(w.Files, InFile{Path: name, Content: c})
	}
	w.Patterns = []string{"many/*.yaml"}
	if src.Bool("mf.second") {
		w.Patterns = append(w.Patterns, "many/0*_part.yaml")
	}
	if src.Chance("mf.quiet", 1, 4) {
		w.Flags = []string{"--quiet"}
	}
	w.MapSeed, w.ListSeed = seed64(src, "mapseed"), seed64(src, "listseed")
	return w
}
