package bsim

import (
	"encoding/json"
	"fmt"
	"os"
	"path/filepath"
	"strings"

	"verifsim/choice"
	"verifsim/gen"
)

// engine 2 needs generated containers: this file draws the runnable configurations of a
// batch, pushes each through the (instrumented) build command fault-free under a random map
// schedule, checks the verdict clauses of C05/C15, and writes the accepted sources.

type GenItem struct {
	Name    string   `json:"name"`
	Cfg     *gen.Cfg `json:"cfg"`
	Exit    int      `json:"exit"`
	Files   int      `json:"files"`
	Illegal bool     `json:"illegal,omitempty"`
	CType   string   `json:"ctype"`
	CCtor   string   `json:"cctor"`
}

type GenOut struct {
	Prop       string       `json:"prop"`
	Items      []GenItem    `json:"items"`
	Violations []*Violation `json:"violations"`
	Builds     int          `json:"builds"`
}

func optsFor(prop string, src *choice.Src) gen.Opts {
	switch prop {
	case "C15":
		return gen.Opts{Runnable: true, MaxParams: 5, MaxSvcs: 4, MaxDecs: 0, SimpleVals: true, NoScopes: true, OnlyPtr: true, Plain: true}
	case "C20":
		return gen.Opts{Runnable: true, MaxParams: 4, MaxSvcs: 6, MaxDecs: 2, NoTodo: true, OnlyPtr: true, LegalOnly: true}
	}
	return gen.Opts{Runnable: true, MaxParams: 3, MaxSvcs: 6, MaxDecs: 2, NoTodo: true, OnlyPtr: true, LegalOnly: src.Chance("legalonly", 1, 2)}
}

// CfgWorld renders a configuration into a world (1-3 files, literal patterns).
func CfgWorld(src *choice.Src, cfg *gen.Cfg) *World {
	w := &World{OutKind: "file", Out: "container.go", Class: "runnable", Cfg: cfg}
	n := src.Range("cw.nfiles", 1, 3)
	parts := gen.Split(src, cfg, n)
	for i, p := range parts {
		name := fmt.Sprintf("conf/%02d_part.yaml", i)
		w.Files = append(w.Files, InFile{Path: name, Content: p.Y().Render(func(k int) []int { return src.Perm("cw.keyperm", k) })})
	}
	if src.Bool("cw.glob") {
		w.Patterns = []string{"conf/*.yaml"}
	} else {
		for _, f := range w.Files {
			w.Patterns = append(w.Patterns, f.Path)
		}
	}
	w.MapSeed, w.ListSeed = seed64(src, "cw.mapseed"), seed64(src, "cw.listseed")
	return w
}

func deref(p *string, d string) string {
	if p != nil {
		return *p
	}
	return d
}

// verdict checks the accept/reject clause of the property for one drawn configuration.
func verdict(prop string, w *World, r *Result) *Violation {
	cfg := w.Cfg
	mk := func(sig, detail string) *Violation {
		return &Violation{Property: prop, Sig: sig, Detail: detail + "\n" + tail(r.Stdout, 14), Worlds: []*World{w}, Mode: "verdict:" + prop, Expect: []string{digest(r)}}
	}
	if r.Exit == -1 || r.Exit == -2 {
		return nil // C12's to report
	}
	viol := gen.ScopeViolations(cfg)
	if len(viol) > 0 {
		if r.Exit == 0 {
			return mk("verdict:shared-on-contextual-accepted", fmt.Sprintf("service %q is declared shared and transitively depends on contextual %q, but the configuration was accepted", viol[0][0], viol[0][1]))
		}
		items := errorItems(r.Stdout)
		bad := map[string]bool{}
		for _, v := range viol {
			bad[v[0]] = true
		}
		for s := range bad {
			named := false
			for _, it := range items {
				if !strings.Contains(it, fmt.Sprintf("%q", s)) {
					continue
				}
				for _, v := range viol {
					if v[0] == s && strings.Contains(it, fmt.Sprintf("%q", v[1])) {
						named = true
					}
				}
			}
			if !named && prop == "C05" {
				return mk("verdict:scope-diagnostic-does-not-name-both-services", fmt.Sprintf("shared service %q depends on a contextual service, but no diagnostic names it together with one of its contextual dependencies", s))
			}
		}
		return nil
	}
	if r.Exit != 0 {
		step := failingStep(r.Stdout)
		what := "a configuration that is valid by construction"
		if prop == "C05" {
			what = "a configuration without a shared service depending on a contextual one"
		}
		if prop == "C15" {
			what = "a configuration whose todo parameters/services must count as declared"
		}
		return mk("verdict:legal-config-rejected:"+step, what+" was rejected (failing step: "+step+")")
	}
	return nil
}

func errorItems(stdout string) []string {
	var items []string
	in := false
	for _, l := range strings.Split(stdout, "\n") {
		if l == "Errors:" {
			in = true
			continue
		}
		if in && reItem.MatchString(l) {
			items = append(items, l)
		}
	}
	return items
}

func failingStep(stdout string) string {
	step := "?"
	for _, l := range strings.Split(stdout, "\n") {
		if strings.Contains(l, "[⨉]") && strings.Contains(l, " END") {
			s := strings.TrimSpace(l)
			if i := strings.Index(s, " END"); i > 0 {
				step = s[:i]
			}
		}
	}
	return step
}

func init() {
	for _, p := range []string{"C05", "C15", "C20"} {
		p := p
		replayModes["verdict:"+p] = func(t Target, v *Violation) (string, string) {
			r := Exec(t, v.Worlds[0])
			if nv := verdict(p, v.Worlds[0], r); nv != nil {
				return nv.Sig, nv.Detail
			}
			return "", ""
		}
	}
}

// GenBatch draws n configurations for prop, builds them and writes the accepted ones.
func GenBatch(t Target, prop string, seed uint64, n int, outdir string) *GenOut {
	out := &GenOut{Prop: prop}
	for i := 0; i < n; i++ {
		src := choice.New(choice.Mix(seed^0x9e3779b97f4a7c15, uint64(i)))
		cfg := gen.GenCfg(src, optsFor(prop, src))
		name := fmt.Sprintf("c%03d", i)
		cfg.Meta.Pkg = &name
		w := CfgWorld(src, cfg)
		r := Exec(t, w)
		out.Builds++
		if v := verdict(prop, w, r); v != nil {
			v.Seed, v.Index = seed, i
			out.Violations = append(out.Violations, v)
		}
		it := GenItem{Name: name, Cfg: cfg, Exit: r.Exit, Files: len(w.Files), Illegal: len(gen.ScopeViolations(cfg)) > 0,
			CType: deref(cfg.Meta.CType, "Gontainer"), CCtor: deref(cfg.Meta.CCtor, "NewGontainer")}
		out.Items = append(out.Items, it)
		if r.Exit == 0 && r.Out.Exists {
			dir := filepath.Join(outdir, name)
			_ = os.MkdirAll(dir, 0755)
			_ = os.WriteFile(filepath.Join(dir, "container.go"), []byte(r.Out.Data), 0644)
			b, _ := json.Marshal(cfg)
			_ = os.WriteFile(filepath.Join(dir, "cfg.json"), b, 0644)
		}
	}
	return out
}

// GenOne builds one given configuration (replay of an engine-2 violation).
func GenOne(t Target, cfg *gen.Cfg, outdir string) *GenOut {
	out := &GenOut{}
	name := deref(cfg.Meta.Pkg, "c000")
	src := choice.New(1)
	w := CfgWorld(src, cfg)
	r := Exec(t, w)
	out.Builds++
	out.Items = append(out.Items, GenItem{Name: name, Cfg: cfg, Exit: r.Exit, CType: deref(cfg.Meta.CType, "Gontainer"), CCtor: deref(cfg.Meta.CCtor, "NewGontainer")})
	if r.Exit == 0 && r.Out.Exists {
		dir := filepath.Join(outdir, name)
		_ = os.MkdirAll(dir, 0755)
		_ = os.WriteFile(filepath.Join(dir, "container.go"), []byte(r.Out.Data), 0644)
		b, _ := json.Marshal(cfg)
		_ = os.WriteFile(filepath.Join(dir, "cfg.json"), b, 0644)
	}
	return out
}
