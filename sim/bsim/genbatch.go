package bsim

import (
	"encoding/json"
	"fmt"
	"os"
	"path/filepath"
	"strings"

	"verifsim/choice"
	"verifsim/gen"
)

// engine 2 needs generated containers: this file draws the runnable configurations of a
// batch, pushes each through the (instrumented) build command fault-free under a random map
// schedule, checks the verdict clauses of C05/C15, and writes the accepted sources.

type GenItem struct {
	Name    string   `json:"name"`
	Cfg     *gen.Cfg `json:"cfg"`
	Exit    int      `json:"exit"`
	Files   int      `json:"files"`
	Illegal bool     `json:"illegal,omitempty"`
	NoRun   bool     `json:"no_run,omitempty"` // verdict only: not linked into the probe
	CType   string   `json:"ctype"`
	CCtor   string   `json:"cctor"`
}

type GenOut struct {
	Prop       string       `json:"prop"`
	Items      []GenItem    `json:"items"`
	Violations []*Violation `json:"violations"`
	Builds     int          `json:"builds"`
}

func optsFor(prop string, src *choice.Src) gen.Opts {
	switch prop {
	case "C15":
		return gen.Opts{Runnable: true, MaxParams: 5, MaxSvcs: 4, MaxDecs: 0, SimpleVals: true, NoScopes: true, OnlyPtr: true, Plain: true}
	case "C20":
		// a quarter of the configurations may contain todo placeholders with a declared scope, and need not be
		// scope-legal: those are judged on the tool's verdict only (a tool that wrongly accepts one hands out
		// shared instances holding another context's objects)
		verdictOnly := src.Chance("c20.verdictonly", 1, 4)
		return gen.Opts{Runnable: true, MaxParams: 4, MaxSvcs: 6, MaxDecs: 2, NoTodo: !verdictOnly, TodoScoped: true, NoTodoParams: true, OnlyPtr: true, LegalOnly: !verdictOnly}
	}
	legal := src.Chance("legalonly", 1, 2)
	// todo placeholders with a declared scope take part in the legality rule; configurations that
	// contain one are only judged on their verdict (a todo service cannot be instantiated)
	return gen.Opts{Runnable: true, MaxParams: 3, MaxSvcs: 6, MaxDecs: 2, NoTodo: legal || src.Chance("notodo", 2, 3), TodoScoped: true, NoTodoParams: true, OnlyPtr: true, LegalOnly: legal}
}

// CfgWorld renders a configuration into a world (1-3 files, literal patterns).
func CfgWorld(src *choice.Src, cfg *gen.Cfg) *World {
	w := &World{OutKind: "file", Out: "container.go", Class: "runnable", Cfg: cfg}
	n := src.Range("cw.nfiles", 1, 3)
	parts := gen.Split(src, cfg, n)
	for i, p := range parts {
		name := fmt.Sprintf("conf/%02d_part.yaml", i)
		w.Files = append(w.Files, InFile{Path: name, Content: p.Y().Render(func(k int) []int { return src.Perm("cw.keyperm", k) })})
	}
	if src.Bool("cw.glob") {
		w.Patterns = []string{"conf/*.yaml"}
	} else {
		for _, f := range w.Files {
			w.Patterns = append(w.Patterns, f.Path)
		}
	}
	w.MapSeed, w.ListSeed = seed64(src, "cw.mapseed"), seed64(src, "cw.listseed")
	return w
}

func deref(p *string, d string) string {
	if p != nil {
		return *p
	}
	return d
}

// verdict checks the accept/reject clause of the property for one drawn configuration.
func verdict(prop string, w *World, r *Result) *Violation {
	cfg := w.Cfg
	mk := func(sig, detail string) *Violation {
		return &Violation{Property: prop, Sig: sig, Detail: detail + "\n" + tail(r.Stdout, 14), Worlds: []*World{w}, Mode: "verdict:" + prop, Expect: []string{digest(r)}}
	}
	if r.Exit < 0 {
		return nil // C12's to report
	}
	viol := gen.ScopeViolations(cfg)
	if len(viol) > 0 {
		if r.Exit == 0 {
			return mk("verdict:shared-on-contextual-accepted", fmt.Sprintf("service %q is declared shared and transitively depends on contextual %q, but the configuration was accepted", viol[0][0], viol[0][1]))
		}
		items := errorItems(r.Stdout)
		bad := map[string]bool{}
		for _, v := range viol {
			bad[v[0]] = true
		}
		for s := range bad {
			named := false
			for _, it := range items {
				if !strings.Contains(it, fmt.Sprintf("%q", s)) {
					continue
				}
				for _, v := range viol {
					if v[0] == s && strings.Contains(it, fmt.Sprintf("%q", v[1])) {
						named = true
					}
				}
			}
			if !named && prop == "C05" {
				return mk("verdict:scope-diagnostic-does-not-name-both-services", fmt.Sprintf("shared service %q depends on a contextual service, but no diagnostic names it together with one of its contextual dependencies", s))
			}
		}
		return nil
	}
	if r.Exit != 0 {
		step := failingStep(r.Stdout)
		what := "a configuration that is valid by construction"
		if prop == "C05" {
			what = "a configuration without a shared service depending on a contextual one"
		}
		if prop == "C15" {
			what = "a configuration whose todo parameters/services must count as declared"
		}
		return mk("verdict:legal-config-rejected:"+step, what+" was rejected (failing step: "+step+")")
	}
	return nil
}

func errorItems(stdout string) []string {
	var items []string
	in := false
	for _, l := range strings.Split(stdout, "\n") {
		if l == "Errors:" {
			in = true
			continue
		}
		if in && reItem.MatchString(l) {
			items = append(items, l)
		}
	}
	return items
}

func failingStep(stdout string) string {
	step := "?"
	for _, l := range strings.Split(stdout, "\n") {
		if strings.Contains(l, "[⨉]") && strings.Contains(l, " END") {
			s := strings.TrimSpace(l)
			if i := strings.Index(s, " END"); i > 0 {
				step = s[:i]
			}
		}
	}
	return step
}

func init() {
	for _, p := range []string{"C05", "C15", "C20"} {
		p := p
		replayModes["verdict:"+p] = func(t Target, v *Violation) (string, string) {
			r := Exec(t, v.Worlds[0])
			if nv := verdict(p, v.Worlds[0], r); nv != nil {
				return nv.Sig, nv.Detail
			}
			return "", ""
		}
	}
}

// enumShape returns configuration j of the exhaustive family of C05: 9 small shapes x all
// 4^3 assignments of {unset, shared, contextual, non_shared} to (a, b, c).
func enumShape(j int) *gen.Cfg { return enumShapeRaw(j % EnumFamily) }

// enumMember returns the k-th member of the family in the order used for prop.
func enumMember(prop string, k int) *gen.Cfg { return enumShapeRaw(enumOrder(prop)[k%EnumFamily]) }

func enumShapeRaw(j int) *gen.Cfg {
	scopes := []string{"", "shared", "contextual", "non_shared"}
	// a fixed order of the family: first the members whose assignment contains both a shared and a
	// contextual scope (where the legality rule can go wrong either way), then the rest; each part in a
	// fixed permutation, so that any prefix samples all shapes
	shape, as := j%NShapes, j/NShapes
	sc := []string{scopes[as%4], scopes[(as/4)%4], scopes[(as/16)%4]}
	fx := `"` + gen.FxPath + `"`
	node := func(name string, scope string, args ...gen.Arg) gen.Svc {
		return gen.Svc{Name: name, Ctor: fx + ".NewNode", Args: append([]gen.Arg{{Kind: "str", S: name}}, args...), Scope: scope}
	}
	ref := func(n string) gen.Arg { return gen.Arg{Kind: "svc", S: n} }
	c := &gen.Cfg{}
	switch shape {
	case 0: // chain through constructor arguments
		c.Services = []gen.Svc{node("a", sc[0], ref("b")), node("b", sc[1], ref("c")), node("c", sc[2])}
	case 1: // fan-out, one edge through a field, one through a call
		a := node("a", sc[0])
		a.Fields = []gen.Field{{Name: "F1", V: ref("b")}}
		a.Calls = []gen.Call{{Method: "SetA", Args: []gen.Arg{ref("c")}}}
		c.Services = []gen.Svc{a, node("b", sc[1]), node("c", sc[2])}
	case 2: // tag edge: a injects everything tagged t, b carries t and depends on c
		b := node("b", sc[1], ref("c"))
		b.Tags = []gen.Tag{{Name: "t"}}
		c.Services = []gen.Svc{node("a", sc[0], gen.Arg{Kind: "tagged", S: "t"}), b, node("c", sc[2])}
	case 3: // decorator edge: a carries t, the decorator of t takes b, b depends on c through a wither
		a := node("a", sc[0])
		a.Tags = []gen.Tag{{Name: "t", HasPrio: true, Prio: 1}}
		b := node("b", sc[1])
		b.Calls = []gen.Call{{Method: "WithA", Args: []gen.Arg{ref("c")}, Wither: true}}
		c.Services = []gen.Svc{a, b, node("c", sc[2])}
		c.Decorators = []gen.Dec{{Tag: "t", Fn: fx + ".Decorate", Args: []gen.Arg{ref("b")}}}
	case 9: // a tag that only a decorator's argument consumes: a carries t, the decorator of t takes "!tagged u", b carries u and depends on c
		a := node("a", sc[0])
		a.Tags = []gen.Tag{{Name: "t"}}
		b := node("b", sc[1], ref("c"))
		b.Tags = []gen.Tag{{Name: "u"}}
		c.Services = []gen.Svc{a, b, node("c", sc[2])}
		c.Decorators = []gen.Dec{{Tag: "t", Fn: fx + ".Decorate", Args: []gen.Arg{{Kind: "tagged", S: "u"}}}}
	case 10: // the same decorator function twice on one tag, with different arguments: first b, then c
		a := node("a", sc[0])
		a.Tags = []gen.Tag{{Name: "t"}}
		c.Services = []gen.Svc{a, node("b", sc[1]), node("c", sc[2])}
		c.Decorators = []gen.Dec{{Tag: "t", Fn: fx + ".Decorate", Args: []gen.Arg{ref("b")}}, {Tag: "t", Fn: fx + ".Decorate", Args: []gen.Arg{ref("c")}}}
	case 12: // a diamond with an onlooker: b and the onlooker "a0" (sorting first, never scoped) both reach x, x reaches c; a0 mentions x before b
		c.Services = []gen.Svc{node("a0", "", ref("x"), ref("b")), node("b", sc[0], ref("x")), node("x", sc[1], ref("c")), node("c", sc[2])}
	case 11: // a decorator on the tag "*", which no service can carry: it is never applied, a depends on nothing
		c.Services = []gen.Svc{node("a", sc[0]), node("b", sc[1], ref("c")), node("c", sc[2])}
		c.Decorators = []gen.Dec{{Tag: "*", Fn: fx + ".Decorate", Args: []gen.Arg{ref("b")}}}
	case 8: // two calls: the first injects b, the second c
		a := node("a", sc[0])
		a.Calls = []gen.Call{{Method: "SetA", Args: []gen.Arg{ref("b")}}, {Method: "SetB", Args: []gen.Arg{ref("c")}}}
		c.Services = []gen.Svc{a, node("b", sc[1]), node("c", sc[2])}
	case 7: // a bare value with a typed getter, decorated by a decorator that takes b; c hangs off b
		a := gen.Svc{Name: "a", Value: "&" + fx + ".Node{}", Scope: sc[0], Getter: "GetA", Type: "*" + fx + ".Node"}
		yes := true
		a.MustGetter = &yes
		a.Tags = []gen.Tag{{Name: "t"}}
		c.Services = []gen.Svc{a, node("b", sc[1], ref("c")), node("c", sc[2])}
		c.Decorators = []gen.Dec{{Tag: "t", Fn: fx + ".Decorate", Args: []gen.Arg{ref("b")}}}
	case 6: // chain whose end is a todo placeholder that declares a scope (verdict only)
		c.Services = []gen.Svc{node("a", sc[0], ref("b")), node("b", sc[1], ref("c")), {Name: "c", Todo: true, Scope: sc[2]}}
	case 4, 5: // two decorators on two tags: a carries only t1 (decorated with b); c sits behind the decorator of t0
		a := node("a", sc[0])
		a.Tags = []gen.Tag{{Name: "t1"}}
		other := node("z", "")
		other.Tags = []gen.Tag{{Name: "t0"}}
		c.Services = []gen.Svc{a, node("b", sc[1]), node("c", sc[2]), other}
		d0 := gen.Dec{Tag: "t0", Fn: fx + ".Decorate", Args: []gen.Arg{ref("c")}}
		d1 := gen.Dec{Tag: "t1", Fn: fx + ".Decorate", Args: []gen.Arg{ref("b")}}
		if shape == 4 {
			c.Decorators = []gen.Dec{d0, d1}
		} else {
			c.Decorators = []gen.Dec{d1, d0}
		}
	}
	// every member has a parameter made of a function token, referred to plainly by its constructor-built
	// services: evaluated once per container whatever the shape
	c.Meta.Functions = []gen.KV{{K: "fn", V: fx + ".Fn"}}
	c.Params = []gen.Param{{Name: "p", V: gen.Arg{Kind: "pattern", Chunks: []gen.Chunk{{Kind: "fn", S: "fn", Def: "p"}}}}}
	for i := range c.Services {
		if sv := &c.Services[i]; !sv.Todo && sv.Ctor != "" && (sv.Name == "a" || sv.Name == "b") {
			sv.Args = append(sv.Args, gen.Arg{Kind: "pattern", Chunks: []gen.Chunk{{Kind: "ref", S: "p"}}})
		}
	}
	return c
}

// EnumFamily is the size of the exhaustive C05 family: 7 shapes x 4^3 scope assignments.
const EnumFamily = NShapes * 64

// NShapes is the number of shapes of the family.
const NShapes = 13

// enumCfg15 is the small configuration whose histories C15 enumerates exhaustively.
func enumCfg15() *gen.Cfg {
	fx := `"` + gen.FxPath + `"`
	return &gen.Cfg{
		Params: []gen.Param{
			{Name: "p1", V: gen.Arg{Kind: "pattern", Chunks: []gen.Chunk{{Kind: "todo", HasDef: true, Def: "quota reached: 90% of %d (see %s)"}}}},
			{Name: "p4", V: gen.Arg{Kind: "pattern", Chunks: []gen.Chunk{{Kind: "todo"}}}},
			{Name: "p5", V: gen.Arg{Kind: "pattern", Chunks: []gen.Chunk{{Kind: "todo", HasDef: true, Def: ""}}}},
			{Name: "p2", V: gen.Arg{Kind: "pattern", Chunks: []gen.Chunk{{Kind: "ref", S: "p1"}, {Kind: "lit", S: "-x"}}}},
			{Name: "p3", V: gen.Arg{Kind: "int", I: 7}},
		},
		Services: []gen.Svc{
			{Name: "s1", Todo: true},
			{Name: "s2", Ctor: fx + ".NewNode", Args: []gen.Arg{{Kind: "str", S: "s2"}, {Kind: "svc", S: "s1"}, {Kind: "pattern", Chunks: []gen.Chunk{{Kind: "ref", S: "p2"}}}}},
			{Name: "s3", Ctor: fx + ".NewNode", Args: []gen.Arg{{Kind: "str", S: "s3"}, {Kind: "pattern", Chunks: []gen.Chunk{{Kind: "ref", S: "p3"}}}}},
		},
	}
}

// GenBatch draws n configurations for prop (plus nenum of the exhaustive family), builds them and
// writes the accepted ones.
func GenBatch(t Target, prop string, seed uint64, n int, outdir string, nenum int) *GenOut {
	out := &GenOut{Prop: prop}
	total := n + nenum
	if prop == "C15" {
		total = n + 1
	}
	lastOut := ""
	for i := 0; i < total; i++ {
		src := choice.New(choice.Mix(seed^0x9e3779b97f4a7c15, uint64(i)))
		var cfg *gen.Cfg
		name := fmt.Sprintf("c%03d", i)
		switch {
		case i < n:
			cfg = gen.GenCfg(src, optsFor(prop, src))
		case prop == "C15":
			cfg, name = enumCfg15(), "cenum"
		default:
			cfg, name = enumMember(prop, i-n), fmt.Sprintf("e%03d", i-n)
		}
		cfg.Meta.Pkg = &name
		danglingFlag := false
		// (family members that end in a todo placeholder run as well: the probe overrides the placeholder first)
		if prop == "C05" && i >= n && (i-n)%3 == 1 && cfg.Services[0].Ctor != "" {
			// every third member of the family also refers to an undefined service (sorting before
			// all others) and is built with --ignore-missing-services: the scope verdict must not change
			cfg.Services[0].Args = append(cfg.Services[0].Args, gen.Arg{Kind: "svc", S: "aaa.undefined"})
			danglingFlag = true
		}
		if (prop == "C05" || prop == "C20") && i < n && len(cfg.Services) > 0 && src.Chance("c05.dangling", 1, 4) {
			// a reference to an undefined service, tolerated by --ignore-missing-services, must not
			// change the scope verdict (such a configuration cannot be instantiated: verdict only)
			undef := choice.Pick(src, "c05.undef", []string{"aaa.undefined", "m.undefined", "zzz.undefined"})
			k := src.Draw("c05.danglingsvc", len(cfg.Services))
			if sv := &cfg.Services[k]; !sv.Todo && sv.Ctor != "" {
				sv.Args = append(sv.Args, gen.Arg{Kind: "svc", S: undef})
				danglingFlag = true
			}
		}
		w := CfgWorld(src, cfg)
		if danglingFlag {
			w.Flags = append(w.Flags, "--ignore-missing-services")
		}
		stubFlag := false
		if prop == "C05" && ((i >= n && (i-n)%5 == 2) || (i < n && src.Chance("c05.stub", 1, 5))) {
			// the scope verdict is the same for a stub (which cannot be run: verdict only)
			w.Flags = append(w.Flags, "--stub")
			stubFlag = true
		}
		if prop != "C15" && lastOut != "" && src.Chance("prevout", 1, 3) {
			// the same -o was written a moment ago by a successful build of another configuration with the same
			// binary (the inputs are older than that file): the verdict is about this configuration all the same
			w.PreOut = &InFile{Path: w.Out, Content: lastOut, Mode: 0644}
		}
		r := Exec(t, w)
		if r.Exit == 0 && r.Out.Exists {
			lastOut = r.Out.Data
		}
		out.Builds++
		if v := verdict(prop, w, r); v != nil {
			v.Seed, v.Index = seed, i
			out.Violations = append(out.Violations, v)
		}
		it := GenItem{Name: name, Cfg: cfg, Exit: r.Exit, Files: len(w.Files), Illegal: len(gen.ScopeViolations(cfg)) > 0,
			CType: deref(cfg.Meta.CType, "Gontainer"), CCtor: deref(cfg.Meta.CCtor, "NewGontainer")}
		// (configurations with todo placeholders run as well: the probe overrides every placeholder before it
		// uses the container - the documented build -> override -> use workflow)
		if danglingFlag || stubFlag {
			it.NoRun = true
		}
		out.Items = append(out.Items, it)
		if r.Exit == 0 && r.Out.Exists && !it.NoRun {
			dir := filepath.Join(outdir, name)
			_ = os.MkdirAll(dir, 0755)
			_ = os.WriteFile(filepath.Join(dir, "container.go"), []byte(r.Out.Data), 0644)
			b, _ := json.Marshal(cfg)
			_ = os.WriteFile(filepath.Join(dir, "cfg.json"), b, 0644)
		}
	}
	return out
}

// GenOne builds one given configuration (replay of an engine-2 violation).
func GenOne(t Target, cfg *gen.Cfg, outdir string) *GenOut {
	out := &GenOut{}
	name := deref(cfg.Meta.Pkg, "c000")
	src := choice.New(1)
	w := CfgWorld(src, cfg)
	r := Exec(t, w)
	out.Builds++
	out.Items = append(out.Items, GenItem{Name: name, Cfg: cfg, Exit: r.Exit, CType: deref(cfg.Meta.CType, "Gontainer"), CCtor: deref(cfg.Meta.CCtor, "NewGontainer")})
	if r.Exit == 0 && r.Out.Exists {
		dir := filepath.Join(outdir, name)
		_ = os.MkdirAll(dir, 0755)
		_ = os.WriteFile(filepath.Join(dir, "container.go"), []byte(r.Out.Data), 0644)
		b, _ := json.Marshal(cfg)
		_ = os.WriteFile(filepath.Join(dir, "cfg.json"), b, 0644)
	}
	return out
}

var enumOrderCache = map[string][]int{}

// enumOrder fixes the order in which the family is used. C05: first the members whose assignment
// contains both a shared and a contextual scope (where the legality rule can go wrong either way);
// C20: first the members that contain a contextual service (where instances must be kept apart per
// context; the illegal ones among them are rejected by a correct tool and cost nothing). Each part in a fixed permutation, so that any prefix
// samples all shapes.
func enumOrder(prop string) []int {
	if o, ok := enumOrderCache[prop]; ok {
		return o
	}
	var first, rest []int
	for k := 0; k < EnumFamily; k++ {
		j := (k * 37) % EnumFamily
		as := j / NShapes
		sh, cx := false, false
		for d := 0; d < 3; d++ {
			switch (as >> (2 * uint(d))) & 3 {
			case 1:
				sh = true
			case 2:
				cx = true
			}
		}
		pick := sh && cx
		if prop == "C20" {
			pick = cx // also the illegal ones: a tool that wrongly accepts them hands out shared instances holding contextual ones
			if j%NShapes == 6 && (as>>4)&3 == 0 {
				pick = true // a placeholder without a declared scope: what overrides it at run time may be contextual
			}
		}
		if pick {
			first = append(first, j)
		} else {
			rest = append(rest, j)
		}
	}
	enumOrderCache[prop] = append(first, rest...)
	return enumOrderCache[prop]
}
