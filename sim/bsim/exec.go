// Package bsim is engine 1: the build command executed in-process in a simulated world.
package bsim

import (
	"bytes"
	"crypto/sha256"
	"encoding/hex"
	"encoding/json"
	"fmt"
	"os"
	"os/exec"
	"path/filepath"
	"runtime/debug"
	"sort"
	"strings"
	"syscall"
	"time"

	"verifsim/choice"
	"verifsim/gen"
	"verifsim/sched"
	"verifsim/simrt"
)

// Target is the program under simulation (set by the harness file added to package main).
type Target struct {
	Main     func()
	SetBuild func(version, commit, date, dirty string)
}

type InFile struct {
	LinkTo  string `json:"link_to,omitempty"` // kinds hardlink / symlink-to: the other input file this name is a link to
	Path    string `json:"path"`
	Content string `json:"content"`
	Mode    uint32 `json:"mode,omitempty"`
	Kind    string `json:"kind,omitempty"` // "" regular file; "dangling-link"; "fifo"
}

type World struct {
	Files    []InFile          `json:"files"`
	Dirs     []string          `json:"dirs,omitempty"`
	Patterns []string          `json:"patterns"`
	Out      string            `json:"out"`
	OutKind  string            `json:"out_kind"` // file missingdir isdir devnull devfull
	PreOut   *InFile           `json:"pre_out,omitempty"`
	Flags    []string          `json:"flags,omitempty"`
	Version  string            `json:"version,omitempty"`
	Commit   string            `json:"commit,omitempty"`
	Date     string            `json:"date,omitempty"`
	Dirty    string            `json:"dirty,omitempty"` // "", "true", "false"
	Env      map[string]string `json:"env,omitempty"`
	NoGo     bool              `json:"no_go,omitempty"` // PATH without a go binary
	CwdSub   string            `json:"cwd_sub,omitempty"`
	CwdGo    bool              `json:"cwd_go,omitempty"` // unrelated .go files in cwd
	MapSeed  uint64            `json:"map_seed"`
	ListSeed uint64            `json:"list_seed"`
	Clock    int64             `json:"clock"`
	RandSeed uint64            `json:"rand_seed"`
	Pid      int               `json:"pid"`
	Host     string            `json:"host"`
	Faults   []simrt.Fault     `json:"faults,omitempty"`
	AltSeed  uint64            `json:"alt_seed,omitempty"`
	AltSites []string          `json:"alt_sites,omitempty"`
	AltAll   bool              `json:"alt_all,omitempty"`
	// StdoutFailFrom: the report stream is broken from this write on (1 = from the first byte, like `> /dev/full`)
	StdoutFailFrom int `json:"stdout_fail_from,omitempty"`
	// RunFrom: the command is started from this (new, empty) sub-directory of the world's directory,
	// with every relative pattern and -o respelled relative to it ("../..."): same files, other cwd
	RunFrom string `json:"run_from,omitempty"`
	// AbsInputs: the input files are created under a stable absolute root (outside cwd) and every
	// relative -i pattern is given to the command as an absolute path below that root
	AbsInputs bool `json:"abs_inputs,omitempty"`
	// MetaSeed (non-zero): the input files get drawn modification times (some newer than -o, some in the
	// future), drawn permission bits and are created in a drawn order: same contents, other metadata
	MetaSeed uint64 `json:"meta_seed,omitempty"`
	// StrayConfigs: configuration-looking files that nobody passed with -i lie around the working
	// directory: in its ancestors, in $HOME and below $HOME/.config (a colleague's defaults file, another
	// project's container): same inputs, same flags - nothing may change
	StrayConfigs bool `json:"stray_configs,omitempty"`
	// Persist: a fault that hits every operation of its kind during the whole run (the file is busy for good)
	Persist *simrt.Fault `json:"persist,omitempty"`
	// GoSeed: with MapSeed, the seed of the schedule of the command's own goroutines
	GoSeed uint64 `json:"go_seed,omitempty"`
	// ArgStyle (non-zero): the command line is spelled differently (see Exec)
	ArgStyle int `json:"arg_style,omitempty"`
	// OutLocked: another process holds an advisory lock (flock) on the existing -o file for the whole run
	OutLocked bool `json:"out_locked,omitempty"`
	// ChainDeep: see OutKind "symlink-chain"
	ChainDeep bool `json:"chain_deep,omitempty"`
	// Peers: further build commands that run concurrently with this one, as processes of their own, in
	// the same directory tree (make -j, two terminals, a file watcher): each has its own patterns, -o,
	// flags and seeds; the files are those of this world. SchedSeed decides the interleaving of their file
	// operations.
	Peers     []*World `json:"peers,omitempty"`
	SchedSeed uint64   `json:"sched_seed,omitempty"`
	// SlowSeed (non-zero): a drawn quarter of the file operations takes 0.5-5 s of simulated time
	SlowSeed uint64 `json:"slow_seed,omitempty"`

	Cfg   *gen.Cfg `json:"cfg,omitempty"`   // the model the files were rendered from (when there is one)
	Class string   `json:"class,omitempty"` // generator's note: valid / defect class / layout class
}

func (w *World) Clone() *World {
	c := *w
	c.Files = append([]InFile{}, w.Files...)
	c.Dirs = append([]string{}, w.Dirs...)
	c.Patterns = append([]string{}, w.Patterns...)
	c.Flags = append([]string{}, w.Flags...)
	c.Faults = append([]simrt.Fault{}, w.Faults...)
	c.AltSites = append([]string{}, w.AltSites...)
	if w.Env != nil {
		c.Env = map[string]string{}
		for k, v := range w.Env {
			c.Env[k] = v
		}
	}
	if w.PreOut != nil {
		p := *w.PreOut
		c.PreOut = &p
	}
	c.Peers = nil
	for _, p := range w.Peers {
		c.Peers = append(c.Peers, p.Clone())
	}
	return &c
}

func (w *World) HasFlag(f string) bool {
	for _, x := range w.Flags {
		if x == f {
			return true
		}
	}
	return false
}

type FileObs struct {
	Link   string `json:"link,omitempty"` // the path is a symbolic link to this target; the other fields describe the target
	Exists bool   `json:"exists"`
	IsDir  bool   `json:"is_dir,omitempty"`
	Dev    bool   `json:"dev,omitempty"`
	Mode   uint32 `json:"mode,omitempty"`
	Size   int    `json:"size,omitempty"`
	Sha    string `json:"sha,omitempty"`
	Data   string `json:"-"`
}

func (a FileObs) Same(b FileObs) bool {
	return a.Link == b.Link && a.Exists == b.Exists && a.IsDir == b.IsDir && a.Dev == b.Dev && a.Mode == b.Mode && a.Sha == b.Sha && a.Size == b.Size
}

type Result struct {
	Exit          int                        `json:"exit"` // 0/1/...; -1 panic; -2 hang
	Panic         string                     `json:"panic,omitempty"`
	Stdout        string                     `json:"stdout"`
	Stderr        string                     `json:"stderr,omitempty"`
	Out           FileObs                    `json:"out"`
	OutBefore     FileObs                    `json:"out_before"`
	Ops           []simrt.Op                 `json:"ops,omitempty"`
	Fired         []simrt.Fault              `json:"fired,omitempty"`
	Sites         map[string]*simrt.SiteStat `json:"sites,omitempty"`
	WorldUse      map[string]int             `json:"world_use,omitempty"`
	EnvReads      []string                   `json:"env_reads,omitempty"`
	Stray         []string                   `json:"stray,omitempty"` // files in the world that neither existed before nor are -o
	Inputs        map[string]string          `json:"-"`               // sha of every input file after the run
	InputsChanged []string                   `json:"inputs_changed,omitempty"`
	DurMs         float64                    `json:"dur_ms"`
	SimMs         int64                      `json:"sim_ms,omitempty"`   // simulated time that passed during the run (clock reads, sleeps, operation latencies)
	GoTasks       int                        `json:"go_tasks,omitempty"` // goroutines the command started (scheduled as tasks)
	Killed        string                     `json:"killed,omitempty"`   // the signal that killed the simulated process at the faulted operation
	Race          string                     `json:"race,omitempty"`     // race detector report that appeared during this run (race builds only)
	// concurrent executions only: the peers' results and the order in which the processes were given their turns
	Peers []*Result `json:"peers,omitempty"`
	Turns string    `json:"turns,omitempty"`
}

var raceLogBase string

var (
	isoCounter int
	baseDir    string
	runCounter int
	origEnv    []string
	goBinDir   = "/usr/bin"
)

func initBase() {
	if baseDir != "" {
		return
	}
	root := "/dev/shm"
	if fi, err := os.Stat(root); err != nil || !fi.IsDir() {
		root = os.TempDir()
	}
	if d := os.Getenv("VERIFSIM_RUNDIR"); d != "" {
		root = d
	}
	d, err := os.MkdirTemp(root, "verifsim-run-")
	if err != nil {
		panic(err)
	}
	baseDir = d
	origEnv = os.Environ()
	raceLogBase = os.Getenv("VERIFSIM_RACELOG")
}

func CleanupBase() {
	if baseDir != "" {
		_ = os.Chdir("/")
		_ = os.RemoveAll(baseDir)
		baseDir = ""
	}
}

func observe(path string) FileObs {
	fi, err := os.Lstat(path)
	if err != nil {
		return FileObs{}
	}
	if fi.Mode()&os.ModeSymlink != 0 {
		target, _ := os.Readlink(path)
		o := FileObs{Link: target}
		if _, err := os.Stat(path); err == nil {
			// the file system resolves the link (a ".." after a linked directory is not lexical)
			abs, err := filepath.EvalSymlinks(path)
			if err != nil {
				return o
			}
			t := observe(abs)
			t.Link = target
			return t
		}
		return o
	}
	o := FileObs{Exists: true, IsDir: fi.IsDir(), Mode: uint32(fi.Mode().Perm())}
	if !fi.Mode().IsRegular() {
		o.Dev = !fi.IsDir()
		return o
	}
	b, err := os.ReadFile(path)
	if err == nil {
		h := sha256.Sum256(b)
		o.Sha = hex.EncodeToString(h[:])
		o.Size = len(b)
		o.Data = string(b)
	}
	return o
}

// baseEnv is the scrubbed environment every run starts from.
func baseEnv(w *World, home, tmp string) map[string]string {
	e := map[string]string{
		"PATH":            goBinDir + ":/bin",
		"HOME":            home,
		"GOFLAGS":         "-mod=mod",
		"GOPROXY":         "off",
		"GOSUMDB":         "off",
		"GOTOOLCHAIN":     "local",
		"GOCACHE":         os.Getenv("VERIFSIM_GOCACHE"),
		"VERIFSIM_TMPDIR": tmp,
		"TMPDIR":          tmp,
	}
	if e["GOCACHE"] == "" {
		e["GOCACHE"] = "/root/.cache/go-build"
	}
	if w.NoGo {
		e["PATH"] = "/nonexistent"
	}
	for k, v := range w.Env {
		e[k] = v
	}
	return e
}

func setEnv(e map[string]string) {
	os.Clearenv()
	for k, v := range e {
		_ = os.Setenv(k, v)
	}
}

func restoreEnv() {
	os.Clearenv()
	for _, kv := range origEnv {
		if i := strings.IndexByte(kv, '='); i > 0 {
			_ = os.Setenv(kv[:i], kv[i+1:])
		}
	}
}

func listAll(root string) []string {
	var out []string
	_ = filepath.Walk(root, func(p string, fi os.FileInfo, err error) error {
		if err != nil {
			return nil
		}
		rel, _ := filepath.Rel(root, p)
		if rel == "." {
			return nil
		}
		if fi.IsDir() {
			rel += "/"
		}
		out = append(out, rel)
		return nil
	})
	sort.Strings(out)
	return out
}

// CaseDigest accumulates the digests of all runs executed since the last reset; the determinism
// self-test compares it per case across processes.
var CaseDigest string

// HangBudget bounds one simulated build.
var HangBudget = 60 * time.Second

// Isolate makes every Exec run in a process of its own (used for replays): a divergence that
// only exists because several builds shared one process (package-level state of the tool) is not
// a divergence of the command-line tool, whose every run is a fresh process.
var Isolate bool

type wireResult struct {
	R    *Result `json:"r"`
	Data string  `json:"data"`
}

// absRoot is the stable absolute directory of AbsInputs worlds: the same for every run of this
// process and of the processes it spawns for isolated execution.
func absRoot() string {
	if r := os.Getenv("VERIFSIM_ABSROOT"); r != "" {
		return r
	}
	initBase()
	return filepath.Join(baseDir, "abs")
}

func execIsolated(w *World) *Result {
	exe, err := os.Executable()
	if err != nil {
		panic(err)
	}
	in, _ := json.Marshal(w)
	initBase()
	isoCounter++
	resFile := filepath.Join(baseDir, fmt.Sprintf("iso-%d.json", isoCounter))
	defer os.Remove(resFile)
	cmd := exec.Command(exe, "exec1")
	// the result travels through a file: whatever the build under test (or a goroutine it left
	// behind) prints to the real descriptors cannot corrupt it
	cmd.Env = append(os.Environ(), "VERIFSIM_ABSROOT="+absRoot(), "VERIFSIM_RESULT="+resFile)
	cmd.Stdin = bytes.NewReader(in)
	var out, errb bytes.Buffer
	cmd.Stdout, cmd.Stderr = &errb, &errb
	if err := cmd.Run(); err != nil {
		// the process running the build died (a Go runtime "fatal error" such as concurrent map
		// writes, a nil-pointer fault outside recover's reach, os.Exit from an unexpected place)
		msg := errb.String()
		if i := strings.Index(msg, "fatal error:"); i >= 0 {
			msg = msg[i:]
		}
		if len(msg) > 3000 {
			msg = msg[:3000]
		}
		r := &Result{Exit: -3, Panic: fmt.Sprintf("the process died: %v\n%s", err, msg)}
		CaseDigest = shaStr(CaseDigest + "died")
		return r
	}
	var wr wireResult
	if b, err := os.ReadFile(resFile); err == nil {
		out.Write(b)
	}
	if err := json.Unmarshal(out.Bytes(), &wr); err != nil {
		panic(fmt.Sprintf("isolated execution: bad result: %v\n%s", err, errb.String()))
	}
	wr.R.Out.Data = wr.Data
	CaseDigest = shaStr(CaseDigest + digest(wr.R) + fmt.Sprint(len(wr.R.Ops), len(wr.R.Fired)))
	return wr.R
}

// Exec1 is the child side of execIsolated.
func Exec1(t Target) {
	var w World
	if err := json.NewDecoder(os.Stdin).Decode(&w); err != nil {
		fmt.Fprintln(os.Stderr, err)
		os.Exit(2)
	}
	var r *Result
	if top := os.Getenv("VERIFSIM_ATTACH"); top != "" {
		// one of several processes of a concurrent execution: the world exists already
		simrt.GateInit()
		simrt.GateWait() // nothing runs before the coordinator's first grant
		r = execPhase(t, &w, top, phaseRun)
	} else {
		r = Exec(t, &w)
	}
	b, _ := json.Marshal(wireResult{R: r, Data: r.Out.Data})
	if f := os.Getenv("VERIFSIM_RESULT"); f != "" {
		if err := os.WriteFile(f, b, 0644); err != nil {
			fmt.Fprintln(os.Stderr, err)
			os.Exit(2)
		}
		return
	}
	os.Stdout.Write(b)
}

func lockedPaths(w *World) []string {
	if w.OutLocked {
		return []string{w.Out}
	}
	return nil
}

// zoneFor is the simulated machine's zone database: what time.Local is in a process started with
// this $TZ (unset or unknown names: UTC, as on a machine whose /etc/localtime is UTC).
func zoneFor(tz string) *time.Location {
	switch tz {
	case "Asia/Tokyo":
		return time.FixedZone("JST", 9*3600)
	case "America/New_York":
		return time.FixedZone("EST", -5*3600)
	case "Europe/Berlin":
		return time.FixedZone("CET", 3600)
	case "Australia/Lord_Howe":
		return time.FixedZone("+1030", 10*3600+1800)
	}
	return time.UTC
}

// Exec runs the build command once in world w.
func Exec(t Target, w *World) *Result {
	if Isolate {
		return execIsolated(w)
	}
	if len(w.Peers) > 0 {
		return execConcurrent(t, w)
	}
	return execPhase(t, w, "", phaseAll)
}

const (
	phaseAll      = iota // set the world up, run the command in this process, observe, remove the world
	phaseSetup           // set the world up under the given directory and return (nothing runs, nothing is removed)
	phaseSetupOut        // as phaseSetup, but only what is at -o (a peer's output path in an existing world)
	phaseRun             // the world exists under the given directory: run and observe, remove nothing
)

// execPhase is one execution (or a part of it, see the phase constants) under the directory top
// ("" = a fresh one).
func execPhase(t Target, w *World, top string, phase int) *Result {
	initBase()
	if top == "" {
		runCounter++
		top = filepath.Join(baseDir, fmt.Sprintf("r%d", runCounter))
	}
	cwd := filepath.Join(top, "w")
	if w.CwdSub != "" {
		cwd = filepath.Join(top, w.CwdSub, "w")
	}
	home := filepath.Join(top, "home")
	tmp := filepath.Join(top, "tmp")
	for _, d := range []string{cwd, home, tmp} {
		if err := os.MkdirAll(d, 0755); err != nil {
			panic(err)
		}
	}
	if phase == phaseAll {
		defer func() {
			_ = os.Chdir("/")
			_ = os.RemoveAll(top)
		}()
	}
	must := func(err error) {
		if err != nil {
			panic(fmt.Sprintf("harness: world setup: %v", err))
		}
	}
	must(os.Chdir(cwd))
	inRoot := ""
	if w.AbsInputs {
		inRoot = absRoot()
		if phase == phaseAll || phase == phaseSetup {
			_ = os.RemoveAll(inRoot)
			must(os.MkdirAll(inRoot, 0755))
		}
		if phase == phaseAll {
			defer os.RemoveAll(inRoot)
		}
	}
	inPath := func(p string) string {
		if inRoot != "" && !filepath.IsAbs(p) {
			return filepath.Join(inRoot, p)
		}
		return p
	}
	files := append([]InFile{}, w.Files...)
	if phase == phaseRun || phase == phaseSetupOut {
		files = nil
	}
	if phase == phaseAll || phase == phaseSetup {
		for _, d := range w.Dirs {
			must(os.MkdirAll(inPath(d), 0755))
		}
	}
	if w.MetaSeed != 0 {
		for i := len(files) - 1; i > 0; i-- {
			j := int(choice.Mix(w.MetaSeed, uint64(i)) % uint64(i+1))
			files[i], files[j] = files[j], files[i]
		}
	}
	for fi, f := range files {
		must(os.MkdirAll(filepath.Dir(inPath(f.Path)), 0755))
		mode := os.FileMode(0644)
		if f.Mode != 0 {
			mode = os.FileMode(f.Mode)
		} else if w.MetaSeed != 0 {
			mode = []os.FileMode{0600, 0644, 0664, 0444, 0755, 0640}[choice.Mix(w.MetaSeed, uint64(1000+fi))%6]
		}
		switch f.Kind {
		case "dangling-link":
			must(os.Symlink("nowhere-to-be-found.yaml", inPath(f.Path)))
		case "fifo":
			must(syscall.Mkfifo(inPath(f.Path), 0644))
		case "link-loop":
			other := inPath(f.Path) + ".peer"
			must(os.Symlink(filepath.Base(other), inPath(f.Path)))
			must(os.Symlink(filepath.Base(f.Path), other))
		case "link-through-file":
			must(os.WriteFile(inPath(f.Path)+".plain", []byte("x"), 0644))
			must(os.Symlink(filepath.Base(f.Path)+".plain/inner.yaml", inPath(f.Path)))
		case "hardlink", "symlink-to":
			// second pass: the other name must exist first
		case "link":
			// the file is a symbolic link to a regular file kept outside the working directory (a linked
			// fragment, a sandboxed build's input farm): reading it gives the same bytes
			store := filepath.Join(top, "store")
			must(os.MkdirAll(store, 0755))
			target := filepath.Join(store, fmt.Sprintf("f%d.data", fi))
			must(os.WriteFile(target, []byte(f.Content), mode))
			_ = os.Chtimes(target, time.Now().Add(-2*time.Hour), time.Now().Add(-2*time.Hour))
			must(os.Symlink(target, inPath(f.Path)))
		default:
			must(os.WriteFile(inPath(f.Path), []byte(f.Content), mode))
		}
	}
	for _, f := range files {
		switch f.Kind {
		case "hardlink":
			must(os.Link(inPath(f.LinkTo), inPath(f.Path)))
		case "symlink-to":
			rel, err := filepath.Rel(filepath.Dir(inPath(f.Path)), inPath(f.LinkTo))
			must(err)
			must(os.Symlink(rel, inPath(f.Path)))
		}
	}
	// the inputs were written long ago, whatever is at -o is more recent (as after any earlier build)
	past := time.Now().Add(-2 * time.Hour)
	for fi, f := range files {
		if f.Kind == "" {
			at := past
			if w.MetaSeed != 0 {
				// from ten days ago to one day ahead
				at = time.Now().Add(-240*time.Hour + time.Duration(choice.Mix(w.MetaSeed, uint64(2000+fi))%(264*3600))*time.Second)
			}
			_ = os.Chtimes(inPath(f.Path), at, at)
		}
	}
	if w.StrayConfigs && (phase == phaseAll || phase == phaseSetup) {
		stray := "parameters:\n  strayParam: 1\nservices:\n  strayService:\n    value: \"os.Stdout\"\nmeta:\n  pkg: stray\n  container_type: Stray\n"
		dirs := []string{top, filepath.Dir(cwd), home, filepath.Join(home, ".config"), filepath.Join(home, ".config", "gontainer"), filepath.Join(home, ".gontainer")}
		for _, d := range dirs {
			if d == cwd {
				continue
			}
			_ = os.MkdirAll(d, 0755)
			for _, n := range []string{".gontainer.yaml", ".gontainer.yml", "gontainer.yaml", "gontainer.yml", ".gontainerrc", "config.yaml", "defaults.yaml"} {
				_ = os.WriteFile(filepath.Join(d, n), []byte(stray), 0644)
			}
		}
	}
	if w.CwdGo && (phase == phaseAll || phase == phaseSetup) {
		must(os.WriteFile("zz_unrelated.go", []byte("package unrelated\n\nimport \"strings\"\n\nvar Cfg = struct{ Field string }{strings.ToUpper(\"x\")}\n"), 0644))
		must(os.WriteFile("zz_other.go", []byte("package unrelated\n\nfunc Helper() int { return 1 }\n"), 0644))
	}
	if phase != phaseRun {
		switch w.OutKind {
		case "isdir":
			must(os.MkdirAll(w.Out, 0755))
		case "file", "symlink", "symlink-chain":
			must(os.MkdirAll(filepath.Dir(w.Out), 0755))
		}
		switch w.OutKind {
		case "symlink-cycle":
			must(os.Symlink("x_link.go", w.Out))
			must(os.Symlink("y_link.go", "x_link.go"))
			must(os.Symlink("x_link.go", "y_link.go"))
		case "symlink-dangling":
			must(os.MkdirAll(filepath.Dir(w.Out), 0755))
			must(os.Symlink("real_behind_link.go", w.Out)) // relative to the link's directory
		case "symlink-self":
			must(os.Symlink(filepath.Base(w.Out), w.Out))
		}
		if w.OutKind == "symlink-dotdot-via-linked-dir" {
			// -o lives in a directory that is reached through a directory link, and is itself a relative link
			// with "..": realdir/sub/out.go -> ../generated/out.go, and linkdir -> realdir/sub; -o is linkdir/out.go.
			// A decoy directory ./generated exists where a lexical reading of the link would land.
			must(os.MkdirAll("realdir/sub", 0755))
			must(os.MkdirAll("realdir/generated", 0755))
			must(os.MkdirAll("generated", 0755))
			if w.PreOut != nil {
				must(os.WriteFile("realdir/generated/out.go", []byte(w.PreOut.Content), os.FileMode(w.PreOut.Mode)))
			}
			must(os.Symlink("../generated/out.go", "realdir/sub/out.go"))
			must(os.Symlink("realdir/sub", "linkdir"))
		} else if w.OutKind == "symlink-chain" {
			must(os.MkdirAll(filepath.Dir(w.Out), 0755))
			must(os.MkdirAll("linkstore/deep", 0755))
			// the hops have relative targets, each relative to the directory of its own link:
			//   -o -> ../linkstore/current -> [deep/]real.go         (ChainDeep: the last file sits one directory further down)
			real := "real.go"
			if w.ChainDeep {
				real = "deep/real.go"
			}
			if w.PreOut != nil {
				must(os.WriteFile("linkstore/"+real, []byte(w.PreOut.Content), os.FileMode(w.PreOut.Mode)))
			}
			must(os.Symlink(real, "linkstore/current"))
			rel, err := filepath.Rel(filepath.Dir(w.Out), "linkstore/current")
			must(err)
			must(os.Symlink(rel, w.Out))
		} else if w.OutKind == "symlink" {
			// -o is a symbolic link to an existing regular file
			must(os.MkdirAll(filepath.Dir(w.Out), 0755))
			must(os.WriteFile("link_target.go", []byte(w.PreOut.Content), os.FileMode(w.PreOut.Mode)))
			rel, err := filepath.Rel(filepath.Dir(w.Out), "link_target.go")
			must(err)
			must(os.Symlink(rel, w.Out))
		} else if w.PreOut != nil {
			must(os.WriteFile(w.Out, []byte(w.PreOut.Content), os.FileMode(w.PreOut.Mode)))
			must(os.Chmod(w.Out, os.FileMode(w.PreOut.Mode)))
		}
	}
	before := listAll(cwd)
	beforeSet := map[string]bool{}
	for _, p := range before {
		beforeSet[p] = true
	}
	inputsBefore := map[string]string{}
	for _, f := range w.Files {
		inputsBefore[f.Path] = observe(inPath(f.Path)).Sha
	}

	res := &Result{OutBefore: observe(w.Out)}
	if phase == phaseSetup || phase == phaseSetupOut {
		return res
	}
	args := []string{"gontainer", "build"}
	up := ""
	if w.RunFrom != "" {
		must(os.MkdirAll(filepath.Join(cwd, w.RunFrom), 0755))
		must(os.Chdir(filepath.Join(cwd, w.RunFrom)))
		up = strings.Repeat("../", strings.Count(filepath.Clean(w.RunFrom), "/")+1)
		beforeSet[filepath.Clean(w.RunFrom)+"/"] = true
	}
	outArg := w.Out
	if !filepath.IsAbs(outArg) {
		outArg = up + outArg
	}
	if w.ArgStyle != 0 {
		// the same command spelled differently: another name of the executable, long options with '=', the
		// output first and the other flags before the inputs
		args = []string{[]string{"gontainer", "app.bin", "/opt/tools/bin/gontainer-v0", "./gontainer"}[w.ArgStyle%4], "build", "--output=" + outArg}
		args = append(args, w.Flags...)
	}
	for _, p := range w.Patterns {
		if inRoot != "" && !filepath.IsAbs(p) {
			// keep the spelling of the pattern (./, //) after the root
			p = inRoot + "/" + p
		} else if !filepath.IsAbs(p) {
			p = up + p
		}
		if w.ArgStyle != 0 {
			args = append(args, "--input="+p)
		} else {
			args = append(args, "-i", p)
		}
	}
	if w.ArgStyle == 0 {
		args = append(args, "-o", outArg)
		args = append(args, w.Flags...)
	}
	oldArgs := os.Args
	os.Args = args
	setEnv(baseEnv(w, home, tmp))
	// a process reads its time zone once, at start, from $TZ: the in-process runs get it per run
	oldLocal := time.Local
	time.Local = zoneFor(os.Getenv("TZ"))
	defer func() { time.Local = oldLocal }()
	if t.SetBuild != nil {
		t.SetBuild(w.Version, w.Commit, w.Date, w.Dirty)
	}
	ctl := &simrt.Ctl{
		MapSeed: w.MapSeed, ListSeed: w.ListSeed, Clock: time.Unix(w.Clock, 0).UTC(), RandSeed: w.RandSeed,
		Pid: w.Pid, Host: w.Host, Faults: append([]simrt.Fault{}, w.Faults...),
		AltSeed: w.AltSeed, AltAll: w.AltAll, SlowSeed: w.SlowSeed, LockedPaths: lockedPaths(w), Persist: w.Persist, Root: top, Root2: inRoot, StdoutFailFrom: w.StdoutFailFrom,
	}
	if len(w.AltSites) > 0 {
		ctl.AltSites = map[string]bool{}
		for _, s := range w.AltSites {
			ctl.AltSites[s] = true
		}
	}
	racePath, raceBefore := raceLog()
	t0 := time.Now()
	done := make(chan struct{})
	go func() {
		defer close(done)
		defer func() {
			if r := recover(); r != nil {
				if ep, ok := r.(simrt.ExitPanic); ok {
					res.Exit = ep.Code & 0xff // what the parent process sees: the low 8 bits
					return
				}
				if u, ok := r.(simrt.Unbounded); ok {
					res.Exit = -2
					res.Panic = "hang: " + u.What + "\n" + string(debug.Stack())
					return
				}
				res.Exit = -1
				res.Panic = fmt.Sprintf("%v\n%s", r, debug.Stack())
			}
		}()
		simrt.Begin(ctl)
		// the command runs as the one initial task of the goroutine scheduler: goroutines it starts become
		// further tasks, and which of them runs at every file operation, lock or channel operation is drawn
		// from the run's schedule seed (a tool without goroutines is a single task: nothing to decide)
		sr := sched.Run(sched.Config{Seed: w.MapSeed ^ w.GoSeed ^ 0x51ed, Policy: int((w.MapSeed ^ w.GoSeed) % uint64(sched.NPolicies)), StepCap: 4000000}, []func(){t.Main})
		res.GoTasks = sr.Spawned
		for _, ev := range sr.Events {
			if ev.Kind == "panic-in-goroutine" {
				panic("panic in a goroutine started by the command: " + ev.A)
			}
		}
		if len(sr.Panics) > 0 {
			panic(sr.Panics[0])
		}
		if sr.Outcome != "finished" && sr.Polling == 0 {
			panic(simrt.Unbounded{What: "the command's goroutines do not come to an end: " + sr.Outcome})
		}
	}()
	select {
	case <-done:
	case <-time.After(HangBudget):
		res.Exit = -2
		res.Panic = "hang: no result within " + HangBudget.String()
	}
	simrt.End()
	if racePath != "" {
		if _, after := raceLog(); after > raceBefore {
			if b, err := os.ReadFile(racePath); err == nil && int64(len(b)) >= after {
				res.Race = string(b[raceBefore:after])
				if len(res.Race) > 6000 {
					res.Race = res.Race[:6000]
				}
			}
		}
	}
	res.DurMs = float64(time.Since(t0).Microseconds()) / 1000
	res.SimMs = ctl.Clock.Sub(time.Unix(w.Clock, 0)).Milliseconds()
	os.Args = oldArgs
	restoreEnv()

	_ = os.Chdir(cwd)
	res.Stdout = ctl.Stdout.String()
	res.Stderr = ctl.Stderr.String()
	res.Ops = ctl.Ops
	res.Fired = ctl.Fired
	res.Sites = ctl.Sites
	res.WorldUse = ctl.WorldUse
	res.EnvReads = ctl.EnvReads
	res.Killed = ctl.Killed
	res.Out = observe(w.Out)
	if isDev, replaced, content := ctl.VDevState(w.Out); isDev {
		// virtual device: the real node is never touched; report what the program did to it
		res.OutBefore = FileObs{Exists: true, Dev: true, Mode: 0666}
		res.Out = FileObs{Exists: true, Dev: true, Mode: 0666}
		if replaced {
			h := sha256.Sum256(content)
			res.Out = FileObs{Exists: true, Mode: 0644, Size: len(content), Sha: hex.EncodeToString(h[:]), Data: string(content)}
		}
	}
	for _, p := range listAll(cwd) {
		if strings.HasSuffix(p, "/") {
			continue // directories created on the way are not judged
		}
		if !beforeSet[p] && filepath.Clean(p) != filepath.Clean(w.Out) && p != "link_target.go" && p != "out/real_behind_link.go" && !strings.HasPrefix(p, "linkstore/") && !strings.HasPrefix(p, "realdir/") {
			res.Stray = append(res.Stray, p)
		}
	}
	for _, p := range listAll(tmp) {
		res.Stray = append(res.Stray, "$TMP/"+p)
	}
	if os.Getenv("VERIFSIM_DEBUG_DIGEST") != "" {
		fmt.Fprintf(os.Stderr, "DIGEST %s ops=%d fired=%d class=%s\n", digest(res), len(res.Ops), len(res.Fired), w.Class)
	}
	CaseDigest = shaStr(CaseDigest + digest(res) + fmt.Sprint(len(res.Ops), len(res.Fired)))
	for _, f := range w.Files {
		if filepath.Clean(f.Path) == filepath.Clean(w.Out) {
			continue
		}
		if observe(inPath(f.Path)).Sha != inputsBefore[f.Path] {
			res.InputsChanged = append(res.InputsChanged, f.Path)
		}
	}
	return res
}

// raceLog returns the race detector's log file of this process and its current size.
func raceLog() (string, int64) {
	// (the worker's own environment, not the simulated one that is in force during a run)
	p := raceLogBase
	if p == "" {
		p = os.Getenv("VERIFSIM_RACELOG")
	}
	if p == "" {
		return "", 0
	}
	p = fmt.Sprintf("%s.%d", p, os.Getpid())
	fi, err := os.Stat(p)
	if err != nil {
		return p, 0
	}
	return p, fi.Size()
}
