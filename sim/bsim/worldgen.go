package bsim

import (
	"fmt"
	"path/filepath"
	"strings"

	"verifsim/choice"
	"verifsim/gen"
	"verifsim/simrt"
)

// WOpts steers world generation (swarm: each world first draws which features are on).
type WOpts struct {
	Defects     bool // allow configuration defects
	LayoutFault bool // allow environmental failure classes (missing input, dir as input, bad glob, double match, odd -o)
	Flags       bool // draw flag combinations
	Fake        bool // allow symbols/imports outside the fixture universe
	KeyPerm     bool // render YAML mappings in a drawn key order
	DotPkg      bool // allow `"."`-package multi-segment values (push goimports into its environment scan)
	AbsPatterns bool // input files live under a stable absolute root and are named by absolute patterns
	Storm       bool // 1-4 additional node-kind confusions anywhere in any file
	Big         bool // larger configurations
}

type postMut struct {
	file int // -1: last file
	m    gen.YMut
}

func seed64(src *choice.Src, label string) uint64 {
	return uint64(src.Draw(label+".hi", 1<<30))<<30 | uint64(src.Draw(label+".lo", 1<<30)) | 1
}

// GenWorld draws a complete world.
func GenWorld(src *choice.Src, o WOpts) *World { return genWorldKeyed(src, o, 0) }

// genWorldKeyed draws a world; keySeed != 0 renders every YAML mapping in a key order drawn
// from a PRNG of its own (so that worlds differing only in key order share all draws).
func genWorldKeyed(src *choice.Src, o WOpts, keySeed uint64) *World {
	w := &World{OutKind: "file"}
	gopts := gen.Opts{MaxParams: 6, MaxSvcs: 6, MaxDecs: 3}
	if o.Big {
		gopts = gen.Opts{MaxParams: 14, MaxSvcs: 16, MaxDecs: 5}
		if src.Chance("huge", 1, 3) {
			gopts.MaxSvcs = 48
		}
	} else if src.Chance("small", 1, 4) {
		gopts.MaxParams, gopts.MaxSvcs, gopts.MaxDecs = 2, 2, 1
	}
	cfg := gen.GenCfg(src, gopts)
	w.Class = "valid"
	if len(gen.ScopeViolations(cfg)) > 0 {
		w.Class = "scope-illegal"
	}
	if o.Fake && src.Chance("fake", 1, 2) {
		gen.AddFakeWorld(src, cfg, o.DotPkg)
		if o.Big {
			// many services that each bring packages not used before (import alias numbering)
			for k := src.Range("fake.more", 0, 10); k > 0; k-- {
				gen.AddFakeWorld(src, cfg, false)
			}
		}
	}
	var post []postMut
	if o.Defects && src.Chance("defect", 1, 2) {
		n := src.Range("ndefects", 1, 3)
		for i := 0; i < n; i++ {
			cls, m := gen.InjectDefect(src, cfg)
			if cls != "" {
				if w.Class == "valid" {
					w.Class = "defect:" + cls
				} else {
					w.Class += "+" + cls
				}
			}
			if m != nil {
				post = append(post, postMut{-1, m})
			}
		}
	}
	if o.Storm {
		n := src.Range("storm.n", 1, 4)
		for i := 0; i < n; i++ {
			m := gen.YMut(gen.KindConfusion)
			if src.Chance("storm.dup", 1, 6) {
				m = gen.DupKey
			}
			post = append(post, postMut{src.Draw("storm.file", 4), m})
		}
		if w.Class == "valid" {
			w.Class = "storm"
		} else {
			w.Class += "+storm"
		}
	}
	w.Cfg = cfg
	layoutWorld(src, w, cfg, o, post, keySeed)
	// output
	w.Out = choice.Pick(src, "out", []string{"gen.go", "out/gen.go", "out/deep/container.go", "./gen.go"})
	if src.Chance("preout", 1, 2) {
		w.PreOut = &InFile{Path: w.Out, Content: "// SENTINEL " + fmt.Sprint(src.Draw("sentinel", 1000)) + "\npackage old\n", Mode: []uint32{0644, 0600, 0664, 0755}[src.Draw("premode", 4)]}
	}
	if w.PreOut != nil && src.Chance("outlocked", 1, 8) {
		// some other process (an editor, a build that hangs) holds an advisory lock on the existing output file
		w.OutLocked = true
	}
	if o.LayoutFault && src.Chance("oddout", 1, 4) {
		switch src.Draw("oddoutk", 15) {
		case 13, 14:
			w.OutKind, w.Out = "symlink-dotdot-via-linked-dir", "linkdir/out.go"
			if src.Bool("linkeddir.dangling") {
				w.PreOut = nil
			} else {
				w.PreOut = &InFile{Path: w.Out, Content: strings.Repeat("// SENTINEL old content behind the link\n", 3000) + "package old\n", Mode: 0644}
			}
		case 11, 12:
			// a chain of symbolic links through several directories with relative targets: -o -> ../store/current -> deep/real.go
			w.OutKind = "symlink-chain"
			w.ChainDeep = src.Bool("chain.deep")
			w.Out = choice.Pick(src, "chainout", []string{"gen/out.go", "gen.go", "a/b/container.go"})
			if src.Bool("chain.dangling") {
				w.PreOut = nil // the last hop points at a file that does not exist yet
			} else {
				w.PreOut = &InFile{Path: w.Out, Content: strings.Repeat("// SENTINEL old content at the end of the chain\n", 3000) + "package old\n", Mode: 0644}
			}
		case 9: // a device whose content never ends
			w.OutKind, w.Out, w.PreOut = "devzero", "/dev/zero", nil
		case 10: // a named pipe that some consumer keeps open
			w.OutKind, w.Out, w.PreOut = "pipe", simrt.VPipe, nil
		case 6: // a chain of links that enters a cycle not containing -o itself
			w.OutKind, w.Out, w.PreOut = "symlink-cycle", "gen.go", nil
		case 7: // a dangling link with a relative target, in a directory that is not cwd
			w.OutKind, w.Out, w.PreOut = "symlink-dangling", choice.Pick(src, "danglingout", []string{"out/gen.go", "gen.go"}), nil
		case 8: // a link to itself
			w.OutKind, w.Out, w.PreOut = "symlink-self", "gen.go", nil
		case 4, 5:
			// a symbolic link to an existing regular file that is longer than anything generated here
			w.OutKind = "symlink"
			w.PreOut = &InFile{Path: w.Out, Content: strings.Repeat("// SENTINEL old content behind the link\n", 4000) + "package old\n", Mode: 0644}
		case 0:
			w.OutKind, w.Out, w.PreOut = "missingdir", "nodir/sub/gen.go", nil
		case 1:
			w.OutKind, w.Out, w.PreOut = "isdir", "outdir", nil
		case 2:
			w.OutKind, w.Out, w.PreOut = "devnull", "/dev/null", nil
		case 3:
			w.OutKind, w.Out, w.PreOut = "devfull", "/dev/full", nil
		}
	}
	if o.Flags {
		for _, f := range []string{"--quiet", "--stub", "--ignore-missing-params", "--ignore-missing-services"} {
			if src.Chance("flag"+f, 1, 5) {
				w.Flags = append(w.Flags, f)
			}
		}
		// a flag meets the defect it is for: a dangling reference under the ignore flag that covers it
		if strings.Contains(w.Class, "dangling-param") && !w.HasFlag("--ignore-missing-params") && src.Bool("flag.match.p") {
			w.Flags = append(w.Flags, "--ignore-missing-params")
		}
		if strings.Contains(w.Class, "dangling-svc") && !w.HasFlag("--ignore-missing-services") && src.Bool("flag.match.s") {
			w.Flags = append(w.Flags, "--ignore-missing-services")
		}
	}
	if o.AbsPatterns {
		w.AbsInputs = true
	}
	w.Version = choice.Pick(src, "bver", []string{"", "", "dev-main", "0.4.2", "0.4.0", "1.2.0", "v0.4.1", "v1.2.0", "v1.0.3", "v2.1.0"})
	if src.Chance("binfo", 1, 2) {
		// a release-like binary: commit, tree state and build date stamped in (make, goreleaser, go install)
		w.Commit = choice.Pick(src, "bcommit", []string{"", "665205f9fb2c80cd703b6a45ed09bb3d3db58184", "0000000"})
		w.Date = choice.Pick(src, "bdate", []string{"", "2023-11-02T20:53:01Z", "2026-10-01T00:00:00Z", "2024-02-29T23:30:00+09:00", "yesterday"})
		w.Dirty = choice.Pick(src, "bdirty", []string{"", "true", "false"})
	}
	w.MapSeed = seed64(src, "mapseed")
	w.ListSeed = seed64(src, "listseed")
	w.Clock = int64(1600000000 + src.Draw("clock", 1<<28))
	w.RandSeed = seed64(src, "randseed")
	w.Pid = 100 + src.Draw("pid", 30000)
	w.Host = choice.Pick(src, "host", []string{"build-1", "laptop", "ci-runner-7"})
	return w
}

// matchedByAny: some pattern matches the path (the world model must know, not guess, which patterns
// pick a planted entry up).
func matchedByAny(patterns []string, path string) bool {
	for _, p := range patterns {
		if ok, err := filepath.Match(filepath.Clean(p), filepath.Clean(path)); err == nil && ok {
			return true
		}
	}
	return false
}

// layoutWorld splits cfg over files and draws the -i patterns.
func layoutWorld(src *choice.Src, w *World, cfg *gen.Cfg, o WOpts, post []postMut, keySeed uint64) {
	nfiles := src.Range("nfiles", 1, 4)
	parts := gen.Split(src, cfg, nfiles)
	var perm func(n int) []int
	if keySeed != 0 {
		ks := choice.New(keySeed)
		ks.NoLog = true
		perm = func(n int) []int { return ks.Perm("keyperm", n) }
	} else if o.KeyPerm {
		perm = func(n int) []int { return src.Perm("keyperm", n) }
	}
	contents := make([]string, len(parts))
	for i, p := range parts {
		y := p.Y()
		for _, pm := range post {
			if (pm.file == -1 && i == len(parts)-1) || (pm.file >= 0 && pm.file%len(parts) == i) {
				pm.m(src, y)
			}
		}
		contents[i] = y.Render(perm)
	}
	layout := src.Draw("layout", 7)
	names := []string{"10_base.yaml", "20_services.yaml", "30_extra.yaml", "40_local.yaml"}
	switch layout {
	case 0: // one directory, one glob
		for i, c := range contents {
			w.Files = append(w.Files, InFile{Path: "conf/" + names[i], Content: c})
		}
		w.Patterns = []string{"conf/*.yaml"}
	case 1: // literal per file
		for i, c := range contents {
			p := "cfg/" + names[i]
			w.Files = append(w.Files, InFile{Path: p, Content: c})
			w.Patterns = append(w.Patterns, p)
		}
	case 2: // main literal + parts glob
		for i, c := range contents {
			if i == 0 {
				w.Files = append(w.Files, InFile{Path: "gontainer.yaml", Content: c})
			} else {
				w.Files = append(w.Files, InFile{Path: "parts/" + names[i], Content: c})
			}
		}
		w.Patterns = []string{"gontainer.yaml"}
		if len(contents) > 1 {
			w.Patterns = append(w.Patterns, "parts/*.yaml")
		}
	case 3: // two directories matched by one meta pattern, plus a pattern matching nothing
		for i, c := range contents {
			d := []string{"c1nf", "c2nf"}[i%2]
			w.Files = append(w.Files, InFile{Path: d + "/" + names[i], Content: c})
		}
		w.Patterns = []string{"c?nf/[0-9]*_*.yaml", "nomatch/*.yaml"}
	case 5: // a directory whose name looks like a shell variable: it is a name, nothing to expand
		for i, c := range contents {
			w.Files = append(w.Files, InFile{Path: "$stage/${env}_" + names[i], Content: c})
		}
		w.Patterns = []string{"$stage/*.yaml"}
	case 6: // long paths: a deep tree of directories with long names (anything that pads, aligns or shortens them)
		dir := "configuration-files-of-the-" + strings.Repeat("very-", src.Range("longdir.n", 4, 30)) + "long-named-project/environment.d"
		for i, c := range contents {
			w.Files = append(w.Files, InFile{Path: dir + "/" + names[i], Content: c})
		}
		if src.Bool("longdir.glob") {
			w.Patterns = []string{dir + "/*.yaml"}
		} else {
			for _, f := range w.Files {
				w.Patterns = append(w.Patterns, f.Path)
			}
		}
	case 4: // uncleaned spellings and a question-mark glob
		for i, c := range contents {
			w.Files = append(w.Files, InFile{Path: "etc/" + names[i], Content: c})
		}
		w.Patterns = []string{"./etc//??_*.yaml"}
	}
	// unrelated files that must not be picked up
	if src.Chance("noise", 1, 3) {
		w.Files = append(w.Files, InFile{Path: "conf/README.txt", Content: "not yaml: [\n"})
		w.Files = append(w.Files, InFile{Path: "conf/zz.yml", Content: "services: 5\n"})
	}
	if !o.LayoutFault || !src.Chance("layoutfault", 1, 4) {
		return
	}
	first := w.Files[0].Path
	respell := func(p string) string {
		switch src.Draw("respell", 4) {
		case 0:
			return "./" + p
		case 1:
			return strings.Replace(p, "/", "//", 1)
		case 2:
			if i := strings.Index(p, "/"); i > 0 {
				return p[:i] + "/../" + p
			}
			return "./" + p
		}
		return "./" + strings.Replace(p, "/", "//", 1)
	}
	switch src.Draw("layoutfaultk", 13) {
	case 11: // two links that point at each other among the matches (every access: too many levels of symbolic links)
		w.Files = append(w.Files, InFile{Path: filepath.Dir(first) + "/06_loop_a.yaml", Kind: "link-loop"})
		if !matchedByAny(w.Patterns, filepath.Dir(first)+"/06_loop_a.yaml") {
			w.Patterns = append(w.Patterns, filepath.Dir(first)+"/06_loop_a.yaml")
		}
		w.Class = "env:input-link-loop"
	case 12: // a link whose target runs through a regular file (not a directory)
		w.Files = append(w.Files, InFile{Path: filepath.Dir(first) + "/06_through_file.yaml", Kind: "link-through-file"})
		if !matchedByAny(w.Patterns, filepath.Dir(first)+"/06_through_file.yaml") {
			w.Patterns = append(w.Patterns, filepath.Dir(first)+"/06_through_file.yaml")
		}
		w.Class = "env:input-link-through-file"
	case 9: // a dangling symbolic link among the matches of a pattern that also matches good files
		w.Files = append(w.Files, InFile{Path: filepath.Dir(first) + "/05_dangling.yaml", Kind: "dangling-link"})
		if !matchedByAny(w.Patterns, filepath.Dir(first)+"/05_dangling.yaml") {
			w.Patterns = append(w.Patterns, filepath.Dir(first)+"/05_dangling.yaml")
		}
		w.Class = "env:input-dangling-link"
	case 10: // a directory among the matches of a glob
		w.Dirs = append(w.Dirs, filepath.Dir(first)+"/07_subdir.yaml")
		if !matchedByAny(w.Patterns, filepath.Dir(first)+"/07_subdir.yaml") {
			w.Patterns = append(w.Patterns, filepath.Dir(first)+"/07_subdir.yaml")
		}
		w.Class = "env:input-is-dir"
	case 0: // missing input as the only pattern
		w.Patterns = []string{"does/not/exist.yaml"}
		w.Class = "env:no-input"
	case 1: // missing input next to good ones: prints "No files", still fine
		w.Patterns = append(w.Patterns, "does/not/exist.yaml")
	case 2: // a directory as input
		w.Dirs = append(w.Dirs, "adir.yaml")
		w.Patterns = append(w.Patterns, "adir.yaml")
		w.Class = "env:input-is-dir"
	case 3: // syntactically invalid glob
		w.Patterns = append(w.Patterns, choice.Pick(src, "badglob", []string{"conf/[a-", "conf\\", "\\", "conf/app.yaml\\", "a[", "conf/[]", "conf/[a-]x", "[\\"}))
		w.Class = "env:bad-glob"
	case 4: // the same file matched by two patterns (same spelling)
		w.Patterns = append(w.Patterns, first)
		if nfiles > 1 && src.Bool("double2") {
			w.Patterns = append(w.Patterns, w.Files[1].Path)
		}
		w.Class = "env:double-match"
	case 5, 6, 7: // the same file matched by two patterns (different spelling of the path)
		w.Patterns = append(w.Patterns, respell(first))
		if nfiles > 1 && src.Bool("double2") {
			w.Patterns = append(w.Patterns, respell(w.Files[nfiles-1].Path))
		}
		w.Class = "env:double-match"
	case 8: // empty glob only
		w.Patterns = []string{"conf/*.nomatch", "other/*.yaml"}
		w.Class = "env:no-input"
	}
}
