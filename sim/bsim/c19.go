package bsim

import (
	"fmt"
	"os"
	"path/filepath"
	"sort"
	"strings"

	"verifsim/choice"
	"verifsim/simrt"
)

func init() {
	registerCheck("C19", CheckC19)
	replayModes["c19"] = replayC19
}

const selfDir = "internal/gontainer"

var selfWorld *World
var selfRef string // what a regenerated file must equal, minus the version line

// loadSelf reads the repository's own configuration from the scratch copy.
func loadSelf() {
	if selfWorld != nil {
		return
	}
	root := os.Getenv("VERIFSIM_REPO")
	if root == "" {
		panic("VERIFSIM_REPO not set")
	}
	w := &World{OutKind: "file", Out: selfDir + "/gontainer.go", Class: "self"}
	names, _ := filepath.Glob(filepath.Join(root, selfDir, "*.yaml"))
	sort.Strings(names)
	for _, n := range names {
		b, err := os.ReadFile(n)
		if err != nil {
			panic(err)
		}
		w.Files = append(w.Files, InFile{Path: selfDir + "/" + filepath.Base(n), Content: string(b)})
	}
	checked, err := os.ReadFile(filepath.Join(root, selfDir, "gontainer.go"))
	if err != nil {
		panic(err)
	}
	w.PreOut = &InFile{Path: w.Out, Content: string(checked), Mode: 0644}
	// the Makefile's self-compile patterns
	w.Patterns = []string{selfDir + "/gontainer.yaml", selfDir + "/gontainer_*.yaml"}
	selfRef = stripVersion(string(checked))
	if p := os.Getenv("VERIFSIM_C19_REF"); p != "" {
		b, err := os.ReadFile(p)
		if err != nil {
			panic(err)
		}
		selfRef = stripVersion(string(b))
	}
	selfWorld = w
}

func stripVersion(s string) string {
	lines := strings.Split(s, "\n")
	out := lines[:0]
	for _, l := range lines {
		if strings.HasPrefix(l, "// gontainer version:") {
			continue
		}
		out = append(out, l)
	}
	return strings.Join(out, "\n")
}

func firstDiff(a, b string) string {
	la, lb := strings.Split(a, "\n"), strings.Split(b, "\n")
	for i := 0; i < len(la) || i < len(lb); i++ {
		var x, y string
		if i < len(la) {
			x = la[i]
		}
		if i < len(lb) {
			y = lb[i]
		}
		if x != y {
			return fmt.Sprintf("first difference at line %d (version line not counted):\n  expected: %s\n  got:      %s", i+1, x, y)
		}
	}
	return ""
}

// genC19World: the self-configuration under a drawn schedule, environment, cwd and build info.
func genC19World(src *choice.Src) *World {
	loadSelf()
	w := selfWorld.Clone()
	w.MapSeed = seed64(src, "mapseed")
	w.ListSeed = seed64(src, "listseed")
	w.Clock = int64(1600000000 + src.Draw("clock", 1<<28))
	w.RandSeed = seed64(src, "randseed")
	w.Pid = 100 + src.Draw("pid", 30000)
	w.Host = choice.Pick(src, "host", []string{"build-1", "laptop", "ci-runner-7"})
	w.Version = choice.Pick(src, "bver", []string{"", "dev-main", "0.4.2", "v1.2.0", "dev-gontainer-helpers@v3"})
	w.Commit = choice.Pick(src, "bcommit", []string{"", "665205f9fb2c80cd703b6a45ed09bb3d3db58184", "0000000"})
	w.Date = choice.Pick(src, "bdate", []string{"", "2023-11-02T20:53:01Z", "2026-10-01T00:00:00Z"})
	w.Dirty = choice.Pick(src, "bdirty", []string{"", "true", "false"})
	if src.Chance("env", 1, 2) {
		w.Env = map[string]string{}
		n := src.Range("nenv", 1, 4)
		for i := 0; i < n; i++ {
			kv := choice.Pick(src, "envkv", envNoise)
			w.Env[kv[0]] = kv[1]
		}
	}
	if src.Chance("gogenerate", 1, 5) {
		// started by `go generate` from a directive in some package of the tree
		if w.Env == nil {
			w.Env = map[string]string{}
		}
		w.Env["GOPACKAGE"] = choice.Pick(src, "gopackage", []string{"main", "cmd", "gontainer", "runner"})
		w.Env["GOFILE"] = choice.Pick(src, "gofile", []string{"main.go", "doc.go", "cmd_build.go"})
		w.Env["GOLINE"] = fmt.Sprint(1 + src.Draw("goline", 90))
		w.Env["GOARCH"], w.Env["GOOS"], w.Env["GOROOT"], w.Env["DOLLAR"] = "amd64", "linux", "/usr/lib/go", "$"
	}
	w.NoGo = src.Chance("nogo", 1, 4)
	w.StrayConfigs = src.Chance("strayconfigs", 1, 5)
	if src.Chance("linked", 1, 6) {
		// some of the configuration files are symbolic links to files with the same bytes
		for i := range w.Files {
			if src.Chance("linked.file", 1, 2) {
				w.Files[i].Kind = "link"
			}
		}
	}
	if src.Chance("cwd", 1, 3) {
		w.CwdSub = choice.Pick(src, "cwdsub", []string{"x", "deep/er/still", "a b", "proj[1]", "we*rd", "q?", "back\\slash"})
		w.CwdGo = src.Bool("cwdgo")
	}
	if src.Chance("quiet", 1, 6) {
		w.Flags = []string{"--quiet"}
	}
	if src.Chance("freshout", 1, 5) {
		w.PreOut = nil // regenerate into a fresh path instead of in place
	} else if src.Chance("staleout", 1, 4) {
		// what is at -o is not what the YAML declares (edited, truncated, a stub): the regenerate must
		// put the declared wiring there
		c := w.PreOut.Content
		switch src.Draw("stalekind", 4) {
		case 3:
			c = "STUB-GENERATED-EARLIER" // replaced in CheckC19 by what `build --stub` writes to this path
		case 0:
			c = "package gontainer\n\n// edited by hand\n"
		case 1:
			c = c[:len(c)/2]
		case 2:
			c = strings.Replace(c, "NewRunner", "NewRunnerX", 1)
		}
		w.PreOut = &InFile{Path: w.Out, Content: c, Mode: 0644}
		w.Class = "self:stale-output"
	}
	// the same seven files under an equivalent, differently spelled invocation
	switch src.Draw("spelling", 6) {
	case 0:
		for i := range w.Patterns {
			w.Patterns[i] = "./" + w.Patterns[i]
		}
		w.Class = "self:dot-slash"
	case 1:
		w.AbsInputs = true
		w.Class = "self:absolute-patterns"
	case 2: // run from inside the configuration's directory (go:generate style)
		strip := func(p string) string { return strings.TrimPrefix(p, selfDir+"/") }
		for i := range w.Files {
			w.Files[i].Path = strip(w.Files[i].Path)
		}
		for i := range w.Patterns {
			w.Patterns[i] = strip(w.Patterns[i])
		}
		w.Out = strip(w.Out)
		if w.PreOut != nil {
			w.PreOut.Path = w.Out
		}
		w.Class = "self:from-config-dir"
	}
	if src.Chance("linkedout", 1, 8) {
		// the regenerated file is reached through links: a directory link, then a relative link with ".."
		// (linkdir -> realdir/sub, linkdir/out.go -> ../generated/out.go); with or without a previous generation there
		w.OutKind, w.Out = "symlink-dotdot-via-linked-dir", "linkdir/out.go"
		if w.PreOut != nil {
			w.PreOut.Path = w.Out
		}
		w.Class += "+linked-output"
	}
	if src.Chance("concurrent", 1, 6) && !w.AbsInputs && w.OutKind == "file" {
		// make -j2 self-compile generate-stub: the Makefile's two targets write into the same directory
		// at the same time; now and then a third build next to them
		dir := filepath.Dir(w.Out)
		n := 1 + src.Draw("concurrent.n", 2)
		sameOut := src.Chance("concurrent.sameout", 1, 3)
		for i := 0; i < n; i++ {
			p := &World{OutKind: "file", Out: filepath.Join(dir, []string{"stub.go", "zz_second.go"}[i]), Patterns: append([]string{}, w.Patterns...),
				MapSeed: seed64(src, "peer.mapseed"), ListSeed: seed64(src, "peer.listseed"), RandSeed: seed64(src, "peer.randseed"),
				Clock: w.Clock + int64(src.Draw("peer.clock", 3)), Pid: w.Pid + 1 + i + src.Draw("peer.pid", 50), Host: w.Host,
				Version: w.Version, Commit: w.Commit, Date: w.Date, Dirty: w.Dirty, Env: w.Env, NoGo: w.NoGo, Class: "self:peer"}
			if i == 0 && sameOut {
				// self-compile started twice at the same time: both write internal/gontainer/gontainer.go
				p.Out, p.PreOut = w.Out, w.PreOut
			} else if i == 0 {
				p.Flags = []string{"--stub"}
			}
			if src.Bool("peer.quiet") {
				p.Flags = append(p.Flags, "--quiet")
			}
			if src.Bool("peer.preout") && p.Out != w.Out {
				p.PreOut = &InFile{Path: p.Out, Content: "package gontainer\n\n// an earlier generation\n", Mode: 0644}
			}
			w.Peers = append(w.Peers, p)
		}
		w.SchedSeed = seed64(src, "schedseed")
		w.Class += "+concurrent"
	}
	return w
}

// judgePeers: every build that ran next to the regenerate must have done what it does when it runs alone.
func judgePeers(t Target, w *World, r *Result) *Violation {
	for i, pr := range r.Peers {
		pw := w.Peers[i].Clone()
		mk := func(sig, detail string) *Violation {
			return &Violation{Property: "C19", Sig: sig, Detail: detail + "\nturns (a = the regenerate, b.. = the other builds): " + r.Turns, Worlds: []*World{w}, Mode: "c19", Expect: []string{digest(r)}}
		}
		if pr.Exit < 0 {
			return mk("concurrent-build-crashed", pr.Panic)
		}
		solo := w.Clone()
		solo.Peers, solo.SchedSeed = nil, 0
		solo.Patterns, solo.Out, solo.OutKind, solo.PreOut, solo.Flags = pw.Patterns, pw.Out, pw.OutKind, pw.PreOut, pw.Flags
		solo.MapSeed, solo.ListSeed, solo.RandSeed, solo.Clock, solo.Pid = pw.MapSeed, pw.ListSeed, pw.RandSeed, pw.Clock, pw.Pid
		sr := Exec(t, solo)
		if sr.Exit != pr.Exit || sr.Out.Sha != pr.Out.Sha {
			return mk("concurrent-build-differs-from-the-same-build-alone", fmt.Sprintf("a build started next to the regenerate (%s) ended differently than the same build alone\n  alone:      exit %d, -o %s\n  concurrent: exit %d, -o %s\n%s",
				strings.Join(pw.Flags, " ")+" -o "+pw.Out, sr.Exit, obs(sr.Out), pr.Exit, obs(pr.Out), tail(pr.Stdout, 8)))
		}
	}
	return nil
}

func CheckC19(t Target, src *choice.Src, st *Stats) *Violation {
	w := genC19World(src)
	if w.PreOut != nil && w.PreOut.Content == "STUB-GENERATED-EARLIER" {
		// a two-step history on one path: `build --stub -o P`, then the regenerate into P
		sw := w.Clone()
		sw.PreOut, sw.Peers, sw.SchedSeed = nil, nil, 0
		sw.Flags = append(sw.Flags, "--stub")
		sr := Exec(t, sw)
		if sr.Exit == 0 && sr.Out.Exists {
			w.PreOut.Content = sr.Out.Data
			w.Class = "self:after-a-stub-at-the-same-path"
		} else {
			w.PreOut = nil
		}
	}
	faulted := src.Chance("faulted", 1, 4)
	if faulted {
		w.Peers, w.SchedSeed = nil, 0 // faults and concurrency are explored separately
		// a failed regenerate (unreadable input) must leave the checked-in file intact, or the chain
		// build -> regenerate -> rebuild -> regenerate stops
		ref := Exec(t, w)
		var opens []int
		for _, o := range ref.Ops {
			if o.Kind == "open-r" {
				opens = append(opens, o.Seq)
			}
		}
		var wops []simrt.Op
		for _, o := range ref.Ops {
			switch o.Kind {
			case "create-temp", "write", "close-w", "rename", "chmod", "open-w":
				wops = append(wops, o)
			}
		}
		if len(wops) > 0 && src.Bool("fault.writepath") {
			// a fault on the write path: the regenerate may fail (file intact) or fall back and succeed
			// (file complete) - never anything in between
			o := wops[src.Draw("fault.wop", len(wops))]
			w.Faults = []simrt.Fault{{At: o.Seq, OpKind: o.Kind, Kind: choice.Pick(src, "fault.wkind", faultKinds[o.Kind]), Arg: src.Draw("fault.warg", 200)}}
		} else if len(opens) > 0 && src.Bool("fault.open") {
			w.Faults = []simrt.Fault{{At: opens[src.Draw("fault.file", len(opens))], OpKind: "open-r", Kind: choice.Pick(src, "fault.kind", []string{"EACCES", "EIO", "ENOENT"})}}
		} else {
			// the open succeeds, a read fails (after some bytes or none)
			var reads []simrt.Op
			for _, o := range ref.Ops {
				if o.Kind == "read" && o.N > 0 {
					reads = append(reads, o)
				}
			}
			if len(reads) > 0 {
				o := reads[src.Draw("fault.read", len(reads))]
				w.Faults = []simrt.Fault{{At: o.Seq, OpKind: "read", Kind: "EIO", Arg: src.Draw("fault.readarg", o.N)}}
			}
		}
		if len(wops) > 0 && src.Chance("fault.kill", 1, 4) {
			// the regenerate is killed at some point of its write path: the checked-in file is intact or replaced, nothing else
			o := wops[src.Draw("fault.killop", len(wops))]
			w.Faults = []simrt.Fault{{At: o.Seq, OpKind: o.Kind, Kind: choice.Pick(src, "fault.sig", []string{"SIGTERM", "SIGINT"})}}
		}
	}
	r := Exec(t, w)
	if st != nil {
		st.Worlds++
		st.note(w, r)
		cls := "regenerate:" + w.Class
		if faulted && len(r.Fired) > 0 {
			cls = "regenerate-with-unreadable-input"
		}
		st.Classes[cls]++
		st.Distinct[fmt.Sprintf("%s|map%x|list%x|env%v|nogo%v|cwd%s/%v|ver%s/%s/%s/%s|%v|pre%v", cls, w.MapSeed, w.ListSeed, len(w.Env), w.NoGo, w.CwdSub, w.CwdGo, w.Version, w.Commit, w.Date, w.Dirty, w.Flags, w.PreOut != nil)]++
		if len(st.Samples) < 3 {
			st.Samples = append(st.Samples, map[string]any{"patterns": w.Patterns, "files": fileNames(w), "out": w.Out, "in_place": w.PreOut != nil, "build_info": []string{w.Version, w.Commit, w.Date, w.Dirty},
				"map_seed": w.MapSeed, "list_seed": w.ListSeed, "env": w.Env, "no_go_on_path": w.NoGo, "cwd": w.CwdSub, "faults": w.Faults, "exit": r.Exit})
		}
	}
	if v := judgeC19(w, r); v != nil {
		return v
	}
	if v := judgePeers(t, w, r); v != nil {
		return v
	}
	if st != nil && len(w.Peers) > 0 {
		st.Probes["concurrent-executions"]++
		st.Probes["concurrent-turns"] += len(r.Turns)
		sw := 0
		for i := 1; i < len(r.Turns); i++ {
			if r.Turns[i] != r.Turns[i-1] {
				sw++
			}
		}
		st.Probes["concurrent-switches-between-processes"] += sw
	}
	// whatever variable the run looked at is not part of the self-configuration: set every one of them
	// and regenerate again
	if len(w.Faults) == 0 && len(w.Peers) == 0 && !w.HasFlag("--quiet") && src.Chance("brokenstdout", 1, 6) {
		// the report cannot be written (`make self-compile > /dev/full`): whatever the tool does about that,
		// a status of 0 still means that the file is the regenerated wiring
		bw := w.Clone()
		bw.StdoutFailFrom = 1 + src.Draw("brokenstdout.from", 3)
		br := Exec(t, bw)
		if st != nil {
			st.note(bw, br)
			st.Probes["regenerates-with-a-broken-report-stream"]++
		}
		if br.Exit == 0 && stripVersion(br.Out.Data) != selfRef {
			return &Violation{Property: "C19", Sig: "exit0-without-regenerating:broken-report-stream", Detail: "with a report stream that rejects writes the regenerate exited 0, but the file is not the regenerated source\n" + firstDiff(selfRef, stripVersion(br.Out.Data)),
				Worlds: []*World{bw}, Mode: "c19", Expect: []string{digest(br)}}
		}
	}
	if len(w.Faults) == 0 && len(w.Peers) == 0 {
		var reads []string
		seen := map[string]bool{}
		for _, k := range r.EnvReads {
			if k != "*" && !seen[k] && !strings.HasPrefix(k, "VERIFSIM_") {
				seen[k] = true
				reads = append(reads, k)
			}
		}
		if len(reads) > 0 {
			ew := w.Clone()
			if ew.Env == nil {
				ew.Env = map[string]string{}
			}
			for _, k := range reads {
				ew.Env[k] = choice.Pick(src, "envread.val", []string{"1", "main", "true", "x", "/tmp/elsewhere"})
			}
			er := Exec(t, ew)
			if st != nil {
				st.note(ew, er)
				st.Probes["env-read-twins"]++
			}
			if v := judgeC19(ew, er); v != nil {
				return v
			}
		}
	}
	return nil
}

func judgeC19(w *World, r *Result) *Violation {
	mk := func(sig, detail string) *Violation {
		return &Violation{Property: "C19", Sig: sig, Detail: detail, Worlds: []*World{w}, Mode: "c19", Expect: []string{digest(r)}}
	}
	if r.Exit == -1 || r.Exit == -2 || r.Exit == -3 {
		return mk("self-regenerate-crashed", r.Panic)
	}
	if r.Killed != "" {
		if r.Out.Same(r.OutBefore) || stripVersion(r.Out.Data) == selfRef {
			return nil
		}
		return mk("killed-regenerate-left-neither-the-old-nor-the-new-file", fmt.Sprintf("the regenerate was killed by %s on its write path; %s before: %s, after: %s", r.Killed, w.Out, obs(r.OutBefore), obs(r.Out)))
	}
	if len(r.Fired) > 0 {
		if r.Exit != 0 && !r.Out.Same(r.OutBefore) {
			return mk("failed-regenerate-damaged-checked-in-file", fmt.Sprintf("regenerating with an unreadable input failed (exit %d) and changed %s: before %s, after %s", r.Exit, w.Out, obs(r.OutBefore), obs(r.Out)))
		}
		readFault := false
		for _, f := range r.Fired {
			// only reads of the configuration files count: a tool may look at other files (what is at -o) and cope with not getting them
			if (f.OpKind == "open-r" || f.OpKind == "read") && simrt.IsErrno(f.Kind) && f.At < len(r.Ops) && isInput(w, r.Ops[f.At].Path) {
				readFault = true
			}
		}
		if r.Exit == 0 && readFault {
			return mk("regenerate-ignored-unreadable-input", "an input of the self-configuration could not be read and the command still exited 0")
		}
		if r.Exit == 0 && stripVersion(r.Out.Data) != selfRef {
			return mk("regenerate-with-write-fault-left-a-wrong-file", "a write-path fault was survived (exit 0) but the file is not the regenerated source\n"+firstDiff(selfRef, stripVersion(r.Out.Data)))
		}
		return nil
	}
	if w.StdoutFailFrom > 0 {
		if r.Exit == 0 && stripVersion(r.Out.Data) != selfRef {
			return mk("exit0-without-regenerating:broken-report-stream", "with a report stream that rejects writes the regenerate exited 0, but the file is not the regenerated source\n"+firstDiff(selfRef, stripVersion(r.Out.Data)))
		}
		return nil
	}
	if r.Exit != 0 {
		return mk("self-config-rejected", fmt.Sprintf("the tool rejects its own configuration (exit %d)\n%s", r.Exit, tail(r.Stdout, 12)))
	}
	got := stripVersion(r.Out.Data)
	if got != selfRef {
		gen := "checked-in internal/gontainer/gontainer.go"
		sig := "regenerated-differs-from-checked-in"
		if os.Getenv("VERIFSIM_C19_REF") != "" || gen2Replay {
			gen = "generation-1 output"
			sig = "generation-2-differs-from-generation-1"
		}
		v := mk(sig, "the regenerated file differs from the "+gen+"\n"+firstDiff(selfRef, got))
		if os.Getenv("VERIFSIM_C19_REF") != "" || gen2Replay {
			v.Gen, v.Ref = 2, selfRef
		}
		return v
	}
	return nil
}

var gen2Replay bool

func replayC19(t Target, v *Violation) (string, string) {
	loadSelf()
	if v.Gen == 2 && v.Ref != "" {
		selfRef, gen2Replay = v.Ref, true
	}
	w := v.Worlds[0]
	r := Exec(t, w)
	if nv := judgeC19(w, r); nv != nil {
		return nv.Sig, nv.Detail
	}
	if nv := judgePeers(t, w, r); nv != nil {
		return nv.Sig, nv.Detail
	}
	return "", ""
}

// SelfOutput regenerates the self-configuration once under the canonical world and returns the file.
func SelfOutput(t Target) (string, int) {
	loadSelf()
	w := selfWorld.Clone()
	w.MapSeed, w.ListSeed = 1, 0
	r := Exec(t, w)
	return r.Out.Data, r.Exit
}
